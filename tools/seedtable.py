#!/venv/bin/python
"""Build seeded/RESULTS.md from the output of tools/seedall.sh (seeded/RESULTS.raw) and each seed's meta.json."""

from __future__ import annotations

import ast
import json
import re
import sys
from pathlib import Path

ROOT = Path(__file__).resolve().parent.parent / "seeded"


def main() -> int:
    raw = (ROOT / "RESULTS.raw").read_text().splitlines()
    rows = []
    for line in raw:
        m = re.match(r"^(C\d\d-\d+) (\S+) (\S+) (\{.*\})$", line)
        if not m:
            continue
        sid, clean, patched, checks = m.groups()
        checks = ast.literal_eval(checks)
        meta = json.loads((ROOT / sid / "meta.json").read_text())
        rows.append((sid, meta, clean, patched, checks))
    out = [
        "# Seeded property-breaking changes and what detects them",
        "",
        "Each row is one change written by an independent sub-agent that saw only the property text and a scratch worktree.",
        "For every row: the patch applies to /repo's committed tree, the repository's own 2772 tests pass with it, the",
        "agent's demonstration (`demo.py`) passes on the clean tree and fails with the patch (`tools/seedrun.py` re-verifies",
        "all of that), and the listed check was run on the patched tree at the quick tier (`tools/seedall.sh`).",
        "",
        "| seed | files touched | what the change needs in order to show | demo clean / patched | check: result (first signatures) |",
        "|---|---|---|---|---|",
    ]
    det = 0
    for sid, meta, clean, patched, checks in rows:
        res = []
        ok = False
        for c, (verdict, code, sigs) in checks.items():
            ok = ok or verdict == "DETECTED"
            res.append(f"{c}: **{verdict}** (exit {code}) " + "; ".join(f"`{s[:90]}`" for s in sigs[:2]))
        det += ok
        needs = meta.get("needs", "").replace("|", "\\|").replace("\n", " ")
        if len(needs) > 300:
            needs = needs[:297] + "..."
        files = ", ".join(f.replace("liquid2/", "") for f in meta.get("files", []))
        note = " — " + meta["status"].split(":")[0] if "status" in meta else ""
        out.append(f"| {sid}{note} | {files} | {needs} | {'passes' if clean == 'clean_ok' else 'FAILS'} / {'fails' if patched == 'patched_fails' else 'PASSES'} | {'<br>'.join(res)} |")
    out += ["", f"Detected at the quick tier (by the property's own check, or - where a second check is listed - by that one): **{det} of {len(rows)}**.", ""]
    (ROOT / "RESULTS.md").write_text("\n".join(out))
    print(f"{det}/{len(rows)} detected")
    return 0


if __name__ == "__main__":
    sys.exit(main())
