#!/bin/bash
# tools/runall.sh quick|thorough [ids...]  -- run the registered checks one after another against /repo and keep each
# summary line in evidence/summary_<tier>.txt (the evidence/<id>.json files are written by the checks themselves)
cd /verif
tier=${1:-quick}; shift
ids=("$@"); [ ${#ids[@]} -eq 0 ] && ids=(C01 C02 C03 C04 C05 C06 C07 C08 C09 C10 C11 C12 C13 C14 C15 C16 C17 C18 C19 C20)
out=evidence/summary_$tier.txt
for c in "${ids[@]}"; do
  line=$(timeout ${VERIF_CHECK_TIMEOUT:-3000} ./check $c $tier 2>/dev/null | grep -E "^$c $tier|VIOLATION|INFRA-ERROR" | tr '\n' ' ')
  echo "$line"
  grep -v "^$c $tier" $out 2>/dev/null > $out.tmp; echo "$line" >> $out.tmp; sort $out.tmp > $out; rm -f $out.tmp
done
