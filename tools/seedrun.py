#!/venv/bin/python
"""Run registered checks against a seeded defect:  tools/seedrun.py <seed dir> [check ids ...] [--tier quick]

Verifies, in this order: the patch applies to /repo's clean tree; the repo's own tests still pass with it; the seed's
demo fails with it and passes without it; then runs the given checks (default: the property named in meta.json) and
reports which of them raise VIOLATION. /repo is restored (git checkout -- .) afterwards, always.
"""

from __future__ import annotations

import json
import subprocess
import sys
from pathlib import Path

REPO = "/repo"


def sh(cmd: str, cwd: str | None = None, timeout: int = 3600) -> tuple[int, str]:
    p = subprocess.run(cmd, shell=True, cwd=cwd, capture_output=True, text=True, timeout=timeout)
    return p.returncode, p.stdout + p.stderr


def main() -> int:
    args = [a for a in sys.argv[1:] if not a.startswith("--")]
    tier = "quick"
    if "--tier" in sys.argv:
        tier = sys.argv[sys.argv.index("--tier") + 1]
        args = [a for a in args if a != tier]
    skip_tests = "--skip-tests" in sys.argv
    seed = Path(args[0]).resolve()
    meta = json.loads((seed / "meta.json").read_text())
    checks = args[1:] or [meta["property"]]
    rc, out = sh("git status --porcelain", REPO)
    if out.strip():
        print("REFUSING: /repo has uncommitted changes:\n" + out)
        return 2
    report: dict = {"seed": str(seed), "property": meta["property"], "checks": {}}
    demo = seed / "demo.py"
    try:
        rc0, out0 = sh(f"/venv/bin/python {demo}", REPO, 600)
        report["demo_passes_on_clean_tree"] = rc0 == 0
        rc, out = sh(f"git apply {seed / 'patch.diff'}", REPO)
        if rc != 0:
            # later fixes touched the same lines: try a 3-way merge of the same edit and keep the rebased patch
            rc, out3 = sh(f"git apply --3way {seed / 'patch.diff'}", REPO)
            if rc != 0 or "with conflicts" in out3:
                sh("git reset -q --hard HEAD", REPO)
                print("patch does not apply:\n" + out + out3)
                return 2
            _rc, diff = sh("git diff HEAD", REPO)
            sh("git reset -q", REPO)
            (seed / "patch.diff").write_text(diff if diff.endswith("\n") else diff + "\n")
            meta["rebased"] = "patch.diff regenerated with git apply --3way on top of later fixes to the same lines (same edit)"
            (seed / "meta.json").write_text(json.dumps(meta, indent=1))
            report["rebased"] = True
        rc1, out1 = sh(f"/venv/bin/python {demo}", REPO, 600)
        report["demo_fails_with_patch"] = rc1 != 0
        if not skip_tests:
            rc, out = sh("/venv/bin/python -m pytest -q -p no:cacheprovider -x -n 8", REPO, 1800)
            report["repo_tests_pass_with_patch"] = rc == 0 and " passed" in out
            report["repo_tests_tail"] = out.strip().splitlines()[-1] if out.strip() else ""
        for c in checks:
            rc, out = sh(f"./check {c} {tier}", "/verif", 7200)
            sigs = [l.strip()[5:] for l in out.splitlines() if l.strip().startswith("sig:")]
            report["checks"][c] = {"exit": rc, "detected": rc == 1 and "VIOLATION property=" in out, "signatures": sigs[:6], "summary": out.strip().splitlines()[-1][:200] if out.strip() else ""}
    finally:
        sh("git checkout -- . && git clean -fdq liquid2", REPO)
    print(json.dumps(report, indent=1))
    return 0


if __name__ == "__main__":
    sys.exit(main())
