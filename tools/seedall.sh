#!/bin/bash
# tools/seedall.sh [seed ids...]  -- run each seed against its own property's quick check; one line per seed
cd /verif
ids=("$@"); [ ${#ids[@]} -eq 0 ] && ids=($(ls seeded | grep '^C'))
for s in "${ids[@]}"; do
  tools/seedrun.py seeded/$s --skip-tests 2>&1 | /venv/bin/python -c "
import json,sys
t=sys.stdin.read()
try:
    r=json.loads(t[t.index('{'):])
    print('$s', 'clean_ok' if r.get('demo_passes_on_clean_tree') else 'CLEAN-DEMO-FAILS', 'patched_fails' if r.get('demo_fails_with_patch') else 'PATCHED-DEMO-PASSES', {k:('DETECTED' if v['detected'] else 'missed', v['exit'], v['signatures'][:2]) for k,v in r['checks'].items()})
except Exception as e:
    print('$s', 'ERROR', t[:300])
"
done
