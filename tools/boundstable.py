#!/usr/bin/env python3
"""Print the table of DESIGN.md section 12.2 from evidence/summary_quick.txt and evidence/summary_thorough.txt
(written by tools/runall.sh) and the `subspaces` / `bounds` each check records in its evidence file."""

from __future__ import annotations

import json
import re
from pathlib import Path

ROOT = Path(__file__).resolve().parent.parent


def parse(tier: str) -> dict[str, dict[str, str]]:
    out: dict[str, dict[str, str]] = {}
    p = ROOT / "evidence" / f"summary_{tier}.txt"
    if not p.exists():
        return out
    for line in p.read_text().splitlines():
        m = re.match(r"^(C\d\d) (\w+) seed=\d+: (.*)$", line.strip())
        if m:
            out[m.group(1)] = dict(kv.split("=", 1) for kv in m.group(3).split() if "=" in kv)
        elif line.strip():
            cid = re.search(r"C\d\d", line)
            if cid:
                out.setdefault(cid.group(0), {"note": line.strip()[:80]})
    return out


def cell(d: dict[str, str] | None) -> str:
    if not d:
        return "not completed within the time allowed"
    if "cases" not in d:
        return d.get("note", "?")
    n = lambda k: f"{int(d[k]):,}" if d.get(k, "0").isdigit() else d.get(k, "?")  # noqa: E731
    s = f"{n('cases')} cases, {n('evaluations')} executions"
    if d.get("states", "0") != "0":
        s += f", {n('states')} states / {n('transitions')} transitions"
    s += f", exhaustive={d.get('exhaustive')}, {d.get('wall')}"
    if d.get("known", "0") != "0":
        s += f", {d['known']} known finding"
    return s


def main() -> None:
    q, t = parse("quick"), parse("thorough")
    print("| id | quick tier | thorough tier |")
    print("|---|---|---|")
    for i in range(1, 21):
        cid = f"C{i:02d}"
        print(f"| {cid} | {cell(q.get(cid))} | {cell(t.get(cid))} |")
    print()
    for cid in sorted(q):
        ev = ROOT / "evidence" / f"{cid}.json"
        if ev.exists():
            e = json.loads(ev.read_text())
            sub = e.get("subspaces") or e.get("space", {}).get("subspaces")
            if sub:
                print(f"* {cid} sub-spaces of the last run ({e.get('tier', '?')}): " + ", ".join(f"{k} {v:,}" if isinstance(v, int) else f"{k} {v}" for k, v in sub.items()))


if __name__ == "__main__":
    main()
