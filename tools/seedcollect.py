#!/venv/bin/python
"""Collect seeded changes from a sub-agent's scratch worktree:  tools/seedcollect.py <worktree> <property id> <first index>

For every <worktree>/seedN/ : verify IN THE WORKTREE (never in /repo) that the patch applies to the clean tree, that the
repository's tests pass with it, that demo.py fails with it and passes without it; then copy patch.diff, demo.py and
meta.json to /verif/seeded/<id>-<index>/ together with collect.json (what was run and what it showed).
"""

from __future__ import annotations

import json
import shutil
import subprocess
import sys
from pathlib import Path

DEST = Path(__file__).resolve().parent.parent / "seeded"


def sh(cmd: str, cwd: str, timeout: int = 1800) -> tuple[int, str]:
    p = subprocess.run(cmd, shell=True, cwd=cwd, capture_output=True, text=True, timeout=timeout)
    return p.returncode, p.stdout + p.stderr


def main() -> int:
    wt, pid, first = sys.argv[1], sys.argv[2], int(sys.argv[3])
    rc, out = sh("git status --porcelain -- liquid2 tests", wt)
    if out.strip():
        print(f"{wt}: library edits left behind:\n{out}")
        sh("git checkout -- liquid2 tests", wt)
    idx = first
    for seed in sorted(Path(wt).glob("seed*")):
        if not (seed / "patch.diff").exists():
            continue
        rep: dict = {"worktree_seed": str(seed)}
        rc, out = sh(f"git apply --check {seed / 'patch.diff'}", wt)
        rep["applies"] = rc == 0
        if rc != 0:
            print(f"{seed}: patch does not apply: {out[:300]}")
            continue
        rc0, out0 = sh(f"/venv/bin/python {seed / 'demo.py'}", wt, 600)
        rep["demo_clean_exit"] = rc0
        sh(f"git apply {seed / 'patch.diff'}", wt)
        try:
            rc1, out1 = sh(f"/venv/bin/python {seed / 'demo.py'}", wt, 600)
            rep["demo_patched_exit"] = rc1
            rep["demo_patched_tail"] = out1.strip().splitlines()[-3:]
            rc, out = sh("/venv/bin/python -m pytest -q -p no:cacheprovider -x -n 6", wt, 1800)
            rep["tests_tail"] = out.strip().splitlines()[-1] if out.strip() else ""
            rep["tests_pass"] = rc == 0 and "2772 passed" in out
        finally:
            sh("git checkout -- liquid2", wt)
        ok = rep["applies"] and rc0 == 0 and rep["demo_patched_exit"] != 0 and rep["tests_pass"]
        rep["kept"] = ok
        name = f"{pid}-{idx}"
        if ok:
            d = DEST / name
            d.mkdir(parents=True, exist_ok=True)
            for f in ("patch.diff", "demo.py", "meta.json"):
                shutil.copy(seed / f, d / f)
            meta = json.loads((d / "meta.json").read_text())
            meta["property"] = pid
            meta["wave"] = int(sys.argv[4]) if len(sys.argv) > 4 else 2
            (d / "meta.json").write_text(json.dumps(meta, indent=1))
            (d / "collect.json").write_text(json.dumps(rep, indent=1))
            idx += 1
        print(name if ok else f"REJECTED {seed}", json.dumps({k: v for k, v in rep.items() if k != "demo_patched_tail"}))
    return 0


if __name__ == "__main__":
    sys.exit(main())
