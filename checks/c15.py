"""C15 — message extraction covers every catalog lookup a render can make.

Programs with 1-3 translation sites, each with a unique message literal, drawn from: the translate tag (with / without
plural, context literal, count literal 0 / 1 / 2 or variable, extra arguments) and the filters t, gettext, ngettext,
pgettext, npgettext with literal operands, placed in output, echo, assign, capture, ternary branches, template-string
interpolation, if / for / case bodies, liquid tags and partial templates; sites are spread over several lines (newlines
inside markup) so that line numbers discriminate; translator comments of the three comment kinds at distance 0, 1, 2
lines before a site and between two sites; plus the empty template, a comment-only and a content-only template.
x data (count 0 / 1 / 2 / missing).
Runtime lookups are recorded by a Translations double passed as `translations`; extract_from_template() gives the
static side. Oracle: for every recorded lookup whose message id is a literal site of the program there is an extracted
message with the same message id(s), plural form, context and gettext function family, on a line inside the
originating markup; a translator comment is attached to at most one message and only to the first site after it;
extraction raises nothing on any template that parses.
"""

from __future__ import annotations

import itertools
from typing import Any

from liquid2.exceptions import LiquidError
from liquid2.messages import extract_from_template
from liquid2.messages import extract_from_templates

from mc import impl
from mc.harness import ShardResult
from mc.harness import chunks
from mc.harness import h64
from mc.vloop import run_solo

ID = "C15"
LEVEL = "exploration"
ENGINES = ["E1 spaces", "Translations double"]
RULE = (
    "site kinds x placements x line layouts x translator comments x counts, 1-2 sites per program (3 thorough); "
    "non-trivial when the render made at least one catalog lookup for a literal message id (so the covering relation was "
    "actually exercised); distinct by program source"
)
LEVEL_TEXT = (
    "Bounded-exhaustive exploration relating two views of the same program on the real implementation: the catalog "
    "lookups an instrumented Translations object records while rendering, and the messages static extraction reports."
)
LEVEL_NOTE = (
    "Only literal message ids / contexts / plural forms are in scope (a data-supplied context cannot be extracted); the "
    "reported line must lie within the originating markup (first to last line of the tag or output statement)."
)
TECHNIQUE = "bounded-exhaustive enumeration of translation sites x placements x layouts relating recorded catalog lookups to extracted messages, three renders per parsed template"
ASSUMPTIONS = ["the Translations double implements the documented gettext / ngettext / pgettext / npgettext protocol"]


class Catalog:
    def __init__(self) -> None:
        self.calls: list[tuple] = []

    def gettext(self, message: str) -> str:
        self.calls.append(("gettext", (message,)))
        return message

    def ngettext(self, singular: str, plural: str, n: int) -> str:
        self.calls.append(("ngettext", (singular, plural)))
        return singular if n == 1 else plural

    def pgettext(self, context: str, message: str) -> str:
        self.calls.append(("pgettext", ((context, "c"), message)))
        return message

    def npgettext(self, context: str, singular: str, plural: str, n: int) -> str:
        self.calls.append(("npgettext", ((context, "c"), singular, plural)))
        return singular if n == 1 else plural


# ---- site kinds: name -> (builder(msg, nl) -> (kind, text), where kind 'tag' = stands alone, 'expr' = an expression)
COUNTS = ["0", "1", "2", "cnt", None, "nil", "'many'"]


def tag_sites(m: str, nl: str) -> list[tuple[str, str]]:
    """(label, source). `nl` is '' or a newline placed inside the markup to spread it over lines."""
    s = []
    s.append(("tr", "{% translate" + nl + " %}" + m + "{% endtranslate %}"))
    s.append(("tr-body-lines", "{% translate" + nl + " %}\n  " + m + "\n{% endtranslate %}"))
    s.append(("tr-plural-body-lines", "{% translate" + nl + " count: 2 %}\n" + m + "\n{% plural %}\n" + m + "s\n{% endtranslate %}"))
    s.append(("tr-ctx", "{% translate" + nl + " context: 'ctx" + m + "' %}" + m + "{% endtranslate %}"))
    s.append(("tr-arg", "{% translate you: g" + nl + " %}" + m + " {{ you }}{% endtranslate %}"))
    s.append(("tr-empty-ctx", "{% translate context: ''" + nl + " %}" + m + "{% endtranslate %}"))
    s.append(("tr-empty-ctx-plural", "{% translate context: ''," + nl + " count: 2 %}" + m + "{% plural %}" + m + "s{% endtranslate %}"))
    for cx in ("42", "0", "true", "false", "1.5", "nil"):
        s.append((f"tr-literal-ctx-{cx}", "{% translate context: " + cx + nl + " %}" + m + "{% endtranslate %}"))
        s.append((f"tr-literal-ctx-plural-{cx}", "{% translate context: " + cx + "," + nl + " count: 2 %}" + m + "{% plural %}" + m + "s{% endtranslate %}"))
    for c in COUNTS:
        cnt = (" count: " + c) if c else ""
        s.append((f"tr-plural-{c}", "{% translate" + nl + cnt + " %}" + m + "{% plural %}" + m + "s{% endtranslate %}"))
        s.append((f"tr-ctx-plural-{c}", "{% translate context: 'ctx" + m + "'," + nl + cnt.replace(" count", " count") + " %}" + m + "{% plural %}" + m + "s{% endtranslate %}"))
    return s


def expr_sites(m: str) -> list[tuple[str, str]]:
    q = "'" + m + "'"
    s = [
        ("t", q + " | t"),
        ("t-ctx", q + " | t: 'ctx" + m + "'"),
        ("t-arg", q + " | t: you: g"),
        ("gettext", q + " | gettext"),
        ("gettext-then", q + " | gettext | upcase"),
        ("pgettext", q + " | pgettext: 'ctx" + m + "'"),
    ]
    # argument orders and repeats: a keyword before the positional ones, the plural keyword given twice (the last wins),
    # an empty context
    s += [
        ("t-kw-then-ctx", q + " | t: plural: '" + m + "s', 'ctx" + m + "', count: 2"),
        ("t-plural-twice", q + " | t: plural: '" + m + "x', count: 2, plural: '" + m + "s'"),
        ("t-empty-ctx", q + " | t: ''"),
        ("ngettext-kw-first", q + " | ngettext: you: g, '" + m + "s', 2"),
        ("pgettext-kw-first", q + " | pgettext: you: g, 'ctx" + m + "'"),
        ("npgettext-kw-between", q + " | npgettext: 'ctx" + m + "', you: g, '" + m + "s', 2"),
        ("pgettext-empty-ctx", q + " | pgettext: ''"),
    ]
    # a message context (or plural) that is a literal number or Boolean: looked up by its string form
    s += [
        ("t-int-ctx", q + " | t: 42"), ("t-true-ctx", q + " | t: true"), ("t-float-ctx", q + " | t: 1.5"), ("t-false-ctx", q + " | t: false"), ("t-zero-ctx", q + " | t: 0"), ("t-nil-ctx", q + " | t: nil"),
        ("pgettext-int-ctx", q + " | pgettext: 3"), ("npgettext-false-ctx", q + " | npgettext: false, '" + m + "s', 2"), ("t-int-plural", q + " | t: plural: 7, count: 2"), ("ngettext-int-plural", q + " | ngettext: 7, 2"),
    ]
    # unfinished calls: fewer positional arguments than the function needs, padded with message variables (such a call
    # makes no catalog lookup; the rest of the template's messages must still be extracted)
    s += [
        ("npgettext-unfinished", q + " | npgettext: 'ctx" + m + "', you: g, n: 2"), ("npgettext-only-kw", q + " | npgettext: you: g, n: 2, z: 1"), ("npgettext-two-pos", q + " | npgettext: 'ctx" + m + "', '" + m + "s', you: g"),
        ("ngettext-unfinished", q + " | ngettext: you: g, n: 2"), ("ngettext-one-pos", q + " | ngettext: '" + m + "s', you: g"), ("pgettext-unfinished", q + " | pgettext: you: g"),
    ]
    for c in COUNTS:
        if c is None:
            s.append(("t-plural-nocount", q + " | t: plural: '" + m + "s'"))
            s.append(("t-ctx-plural-nocount", q + " | t: 'ctx" + m + "', plural: '" + m + "s'"))
            continue
        s.append((f"t-plural-{c}", q + " | t: plural: '" + m + "s', count: " + c))
        s.append((f"t-ctx-plural-{c}", q + " | t: 'ctx" + m + "', plural: '" + m + "s', count: " + c))
        s.append((f"ngettext-{c}", q + " | ngettext: '" + m + "s', " + c))
        s.append((f"npgettext-{c}", q + " | npgettext: 'ctx" + m + "', '" + m + "s', " + c))
    return s


def placements(e: str, nl: str) -> list[tuple[str, str]]:
    """Markup placing the expression e; nl spreads the markup over lines."""
    return [
        ("output", "{{" + nl + " " + e + " }}"),
        ("echo", "{% echo" + nl + " " + e + " %}"),
        ("assign", "{% assign zz =" + nl + " " + e + " %}{{ zz }}"),
        ("capture", "{% capture cc %}{{ " + e + nl + " }}{% endcapture %}{{ cc }}"),
        ("ternary-left", "{{ " + e + nl + " if g else 'no' }}"),
        ("ternary-alt", "{{ 'no' if h" + nl + " else " + e + " }}"),
        ("tstr", "{{ 'pre ${ " + e.replace("'", '"') + " } post' }}"),
        # the site sits inside a template string that is a filter ARGUMENT, at every filter position of an inline condition
        ("arg-tstr", "{{ 'x' | append: \"${ " + e.replace("'", '"').replace('"', "'") + " }\"" + nl + " }}"),
        ("noelse-tail-arg-tstr", "{{ 'x' if g" + nl + " || append: \"${ " + e + " }\" }}"),
        ("else-tail-arg-tstr", "{{ 'x' if g else 'y' ||" + nl + " append: \"${ " + e + " }\" }}"),
        ("alt-arg-tstr", "{{ 'x' if h else 'y' | append: \"${ " + e + " }\"" + nl + " }}"),
        ("left-arg-tstr-noelse", "{{ 'x' | append: \"${ " + e + " }\" if g" + nl + " }}"),
        ("cond-tstr-noelse", "{{ 'x' if \"${ " + e + " }\"" + nl + " }}"),
        ("if-body", "{% if g %}" + nl + "{{ " + e + " }}{% endif %}"),
        ("for-body", "{% for i in (1..2) %}{{ " + e + " }}" + nl + "{% endfor %}"),
        ("case-body", "{% case g %}{% when 1 %}{{ " + e + " }}{% else %}" + nl + "{{ " + e + " }}{% endcase %}"),
        ("liquid", "{% liquid\n echo " + e + "\n%}"),
        ("with-arg", "{% with ww: 1 %}{{ " + e + " }}{% endwith %}"),
        ("partial", "{% include 'part' %}"),
        ("render", "{% render 'part' %}"),
    ]


COMMENT_KINDS = [
    ("hash", "{# Translators: NOTE #}"),
    ("inline", "{% # Translators: NOTE %}"),
    ("block", "{% comment %}Translators: NOTE{% endcomment %}"),
]


def site_markups(m: str, tier: str) -> list[tuple[str, str, dict[str, str]]]:
    """All (label, markup, partial templates) for message m."""
    out: list[tuple[str, str, dict[str, str]]] = []
    for nl in ("", "\n"):
        for label, src in tag_sites(m, nl):
            out.append((label + ("+nl" if nl else ""), src, {}))
            if not nl:
                out.append((label + "@if", "{% if g %}" + src + "{% endif %}", {}))
                out.append((label + "@partial", "{% include 'part' %}", {"part": "\n\n" + src}))
    # the message is a literal BRANCH of an inline condition and the translating filter is the first tail filter
    q = "'" + m + "'"
    for label, src in (
        ("t@tail-left", "{{ " + q + " if g || t }}"), ("t@tail-alt", "{{ 'no' if h else " + q + " || t: 'ctx" + m + "' }}"), ("gettext@tail-left-echo", "{% echo " + q + " if g else 'other' || gettext | upcase %}"),
        ("t-plural@tail-assign", "{% assign zz = " + q + " if g else 'other' || t: plural: '" + m + "s', count: 2 %}{{ zz }}"), ("t@tail-filtered-branch", "{{ " + q + " | upcase if g else " + q + " || t }}"),
    ):
        out.append((label, src, {}))
    for elabel, e in expr_sites(m):
        for nl in ("", "\n"):
            for plabel, src in placements(e, nl):
                if plabel in ("partial", "render"):
                    if nl:
                        continue
                    out.append((f"{elabel}@{plabel}", src, {"part": "line1\n{{ " + e + " }}"}))
                elif (plabel in ("tstr", "liquid", "with-arg") or plabel.endswith("tstr") or plabel.endswith("tstr-noelse")) and nl:
                    continue
                else:
                    if tier == "quick" and nl and plabel not in ("output", "echo", "assign", "ternary-alt"):
                        continue
                    out.append((f"{elabel}@{plabel}" + ("+nl" if nl else ""), src, {}))
    return out


# ------------------------------------------------------------------ running one program


def _markup_line_span(source: str, start: int) -> tuple[int, int]:
    """1-based first and last line of the markup that starts at offset `start`."""
    first = source.count("\n", 0, start) + 1
    # the site markup may consist of several tags ({% translate %}..{% endtranslate %}); span to the end of the piece
    return first, first


def run_program(pieces: list[tuple[str, str]], partials: dict[str, str], data: dict[str, Any], res: ShardResult | None) -> list[tuple[str, Any, Any]]:
    """pieces: list of (kind, text) with kind in {'site:<msg>', 'text', 'comment:<note>'}; joined to the main source."""
    out: list[tuple[str, Any, Any]] = []
    source = "".join(t for _k, t in pieces)
    # line spans per message id
    spans: dict[str, tuple[int, int]] = {}
    offsets: dict[str, int] = {}
    comment_lines: dict[str, int] = {}
    off = 0
    for k, t in pieces:
        if k.startswith("site:"):
            mid = k[5:]
            # the originating markup: the {% translate %} tag itself, or the markup that contains the message literal
            at = t.find("{% translate")
            if at < 0:
                at = max(t.find("'" + mid + "'"), t.find('"' + mid + '"'))
            if at < 0:
                at = 0  # the literal lives in a partial template
            start = max(t.rfind("{{", 0, at + 2), t.rfind("{%", 0, at + 2), 0)
            ends = [x for x in (t.find("}}", at), t.find("%}", at)) if x >= 0]
            end = min(ends) + 2 if ends else len(t)
            first = source.count("\n", 0, off + start) + 1
            last = source.count("\n", 0, off + end) + 1
            spans[mid] = (first, last)
            offsets[mid] = off
        elif k.startswith("comment:"):
            comment_lines[k[8:]] = off  # (source offset of the comment)
        off += len(t)
    env = impl.make_env(templates=partials)
    try:
        t_main = env.from_string(source, name="main")
    except LiquidError:
        if res is not None:
            res.count("does_not_parse")
        return out
    templates = {"main": t_main}
    for name in partials:
        try:
            templates[name] = env.get_template(name)
        except LiquidError:
            pass
    # static side
    extracted: list[tuple[str, Any, Any, list[str], str]] = []
    for name, t in templates.items():
        try:
            for lineno, funcname, message, comments in extract_from_template(t):
                extracted.append((funcname, _norm(message), lineno, list(comments), name))
        except Exception as e:  # noqa: BLE001
            out.append((f"C15:extraction-raises:{type(e).__name__}", {"template": name, "source": t_main if False else (source if name == "main" else partials[name])}, f"{type(e).__name__}: {e}"))
    try:
        extract_from_templates(*templates.values())
    except Exception as e:  # noqa: BLE001
        out.append((f"C15:extract_from_templates-raises:{type(e).__name__}", {"source": source}, f"{type(e).__name__}: {e}"))
    # dynamic side: synchronous and asynchronous renders (the tags and filters have separate asynchronous twins)
    # (the same parsed template is rendered three times: every one of the renders' lookups must be covered, and a
    # render must ask for what the first one asked for)
    cat = Catalog()
    per_render: list[list[tuple]] = []
    for _rep in range(3):
        n0 = len(cat.calls)
        try:
            t_main.render(translations=cat, **data)
        except LiquidError:
            pass
        except Exception as e:  # noqa: BLE001
            if res is not None:
                res.count("foreign:" + type(e).__name__)
        per_render.append(cat.calls[n0:])
    if any(r != per_render[0] for r in per_render[1:]):
        out.append(("C15:repeated-render-makes-different-lookups", {"source": source, "partials": partials, "data": _show(data)}, {"renders": [r[:6] for r in per_render]}))
    cat_a = Catalog()
    for _rep in range(3):
        kind_a, val_a = run_solo(t_main.render_async(translations=cat_a, **data))
        if kind_a != "ok" and not isinstance(val_a, LiquidError) and res is not None:
            res.count("foreign-async:" + type(val_a).__name__)
    if cat_a.calls != cat.calls:
        out.append(("C15:async-render-makes-different-lookups", {"source": source, "partials": partials, "data": _show(data)}, {"sync": cat.calls[:6], "async": cat_a.calls[:6]}))
    if res is not None:
        res.evaluations += 6
    literal_ids = set(spans)
    looked = False
    for fn, msg in cat.calls:
        base = msg[0] if isinstance(msg[0], str) else msg[1]
        if base == "" and not any(x[1] == _norm(msg) for x in extracted):
            # the empty message id is the catalog's own metadata entry: a template without message text must not ask for it
            out.append(("C15:lookup-of-empty-message-id", {"lookup": [fn, msg], "source": source}, {"extracted": [(x[0], x[1]) for x in extracted]}))
            continue
        base = next((i for i in literal_ids if base == i or base.startswith(i + " ")), None)  # ('M1 %(you)s' is site M1)
        if base is None:
            continue  # a data-supplied message id
        looked = True
        matches = [x for x in extracted if x[0] == fn and x[1] == _norm(msg)]
        if not matches:
            near = [(x[0], x[1]) for x in extracted if base in str(x[1])]
            out.append((f"C15:lookup-not-extracted:{fn}-vs-{near[0][0] if near else 'nothing'}", {"lookup": [fn, msg], "source": source, "partials": partials, "data": _show(data)}, {"extracted_for_this_id": near}))
            continue
        # line number inside the originating markup (main template sites only; partial sites are on line 3 / 2)
        first, last = spans[base]
        main_matches = [x for x in matches if x[4] == "main"]
        if main_matches and not any(first <= x[2] <= last for x in main_matches):
            out.append(("C15:wrong-line-number", {"lookup": [fn, msg], "source": source}, {"expected_lines": [first, last], "reported": [x[2] for x in main_matches]}))
    # translator comments: attached to at most one message, and only to the first site after the comment
    for note, cline in comment_lines.items():
        holders = [x for x in extracted if any(note in c for c in x[3])]
        if len(holders) > 1:
            out.append(("C15:translator-comment-attached-to-several-messages", {"note": note, "source": source}, [(h[0], h[1], h[2]) for h in holders]))
        elif holders:
            h = holders[0]
            # the first site whose markup starts at or after the comment's line
            later = sorted((o, mid) for mid, o in offsets.items() if o >= cline)
            first_id = later[0][1] if later else None
            hid = h[1][0] if isinstance(h[1][0], str) else h[1][1]
            if first_id is not None and hid != first_id and not hid.startswith(first_id + " ") and h[4] == "main":
                out.append(("C15:translator-comment-attached-to-a-later-message", {"note": note, "source": source}, {"attached_to": hid, "first_site_after_comment": first_id}))
    if res is not None:
        if looked:
            res.nontrivial.add(h64(source + repr(sorted(partials.items())) + repr(_show(data))))
        res.outcomes.add(h64([len(cat.calls), len(extracted)]))
    return out


def _norm(message: Any) -> Any:
    if isinstance(message, str):
        return (message,)
    return tuple(tuple(m) if isinstance(m, (list, tuple)) else m for m in message)


def _show(d: dict[str, Any]) -> dict[str, Any]:
    return {k: v for k, v in d.items() if k != "translations"}


DATA = [
    {"g": 1, "h": False, "cnt": 0},
    {"g": 1, "h": False, "cnt": 1},
    {"g": 0, "h": False, "cnt": 2},
    {"g": 1, "h": False},
    {"g": 1, "h": True, "cnt": None},
    {"g": 0, "h": True, "cnt": "many"},
    {"g": 1, "h": False, "cnt": 2.5},
]


# ------------------------------------------------------------------ program space

_SP: dict[str, Any] = {}


def _programs(tier: str) -> list[tuple[list[tuple[str, str]], dict[str, str]]]:
    if _SP.get("tier") == tier:
        return _SP["progs"]
    progs: list[tuple[list[tuple[str, str]], dict[str, str]]] = []
    # degenerate templates
    for src in ("{% translate %}{% endtranslate %}", "{% translate %}{% plural %}{% endtranslate %}", "{% translate context: 'c' %}{% endtranslate %}x",
                "{% translate %}{% plural %}items{% endtranslate %}", "{% translate count: 2 %}{% plural %}items{% endtranslate %}", "{% translate count: 1 %}{% plural %}items{% endtranslate %}",
                "{% translate context: 'c', count: 2 %}{% plural %}items{% endtranslate %}", "{% translate count: 2 %}  \n {% plural %}items{% endtranslate %}", "{% translate count: 2 %}item{% plural %}{% endtranslate %}", "", "{# just a comment #}", "{% # c %}", "{% comment %}c{% endcomment %}", "plain text\nonly", "{{ g }}", "\n\n", "{# Translators: lonely #}"):
        progs.append(([("text", src)], {}))
    sm1 = site_markups("M1", tier)
    # single sites, preceded by 0..2 newlines of text
    for label, src, parts in sm1:
        for pre in ("", "text\n", "a\n\nb "):
            progs.append(([("text", pre), ("site:M1", src), ("text", "\ntail")], parts))
    # translator comments before one site at distance 0, 1, 2 lines
    core = [x for x in sm1 if "+nl" not in x[0] and "@" not in x[0].replace("@output", "").replace("@echo", "")]
    for label, src, parts in core:
        for ck, ctext in COMMENT_KINDS:
            for gap in ("", "\n", "\n\n"):
                progs.append(([("text", "x\n"), ("comment:NOTE1", ctext.replace("NOTE", "NOTE1")), ("text", gap), ("site:M1", src)], parts))
    # ONE expression with two sites (both branches of an inline condition), with and without a comment before it
    for f1, f2 in itertools.product(("t", "gettext", "t: 'ctxM1'", "ngettext: 'M1s', 2"), ("t", "gettext", "pgettext: 'ctxM2'")):
        for opener, closer in (("{{ ", " }}"), ("{% echo ", " %}"), ("{% assign zz = ", " %}")):
            two = [("site:M1", opener + "'M1' | " + f1 + " if g else "), ("site:M2", "'M2' | " + f2 + closer)]
            progs.append((two, {}))
            for ck, ctext in COMMENT_KINDS:
                for gap in ("", "\n"):
                    progs.append(([("text", "x\n"), ("comment:NOTE1", ctext.replace("NOTE", "NOTE1")), ("text", gap), *two, ("text", "\n"), ("site:M3", "{{ 'M3' | t }}")], {}))
    # two sites (reduced kinds) with a comment before, between or none
    sm2 = site_markups("M2", tier)
    red1 = [x for x in sm1 if x[0] in ("tr", "tr-plural-2", "tr-ctx", "t@output", "t-plural-1@output", "gettext@echo", "npgettext-2@assign", "t@ternary-alt", "t@tstr", "tr@partial", "t@partial", "t-ctx@liquid",
                                       # the first site's expression starts on a later line than its markup
                                       "t@output+nl", "gettext@echo+nl", "npgettext-2@assign+nl", "t@ternary-alt+nl", "tr+nl", "npgettext-unfinished@output", "ngettext-unfinished@echo")]
    red2 = [x for x in sm2 if x[0] in ("tr", "tr-plural-2", "tr-ctx", "t@output", "t-plural-1@output", "gettext@echo", "npgettext-2@assign", "t@ternary-alt", "t@tstr", "tr@partial", "t@partial", "t-ctx@liquid")]
    for (l1, s1, p1), (l2, s2, p2) in itertools.product(red1, red2):
        if p1 and p2:
            continue  # both would need the same partial name
        parts = {**p1, **p2}
        for sep in ("", "\n", "\n\n\n"):
            progs.append(([("site:M1", s1), ("text", sep), ("site:M2", s2)], parts))
        for ck, ctext in COMMENT_KINDS:
            progs.append(([("comment:NOTE1", ctext.replace("NOTE", "NOTE1")), ("text", "\n"), ("site:M1", s1), ("text", "\n"), ("site:M2", s2)], parts))
            progs.append(([("site:M1", s1), ("text", "\n"), ("comment:NOTE2", ctext.replace("NOTE", "NOTE2")), ("text", "\n"), ("site:M2", s2)], parts))
            progs.append(([("site:M1", s1), ("comment:NOTE2", ctext.replace("NOTE", "NOTE2")), ("site:M2", s2)], parts))
    if tier == "thorough":
        sm3 = site_markups("M3", tier)
        red3 = [x for x in sm3 if x[0] in ("tr", "tr-plural-2", "t@output", "gettext@echo", "t@ternary-alt")]
        r1 = [x for x in red1 if not x[2]][:8]
        r2 = [x for x in red2 if not x[2]][:8]
        for a, b, c in itertools.product(r1, r2, red3):
            for ck, ctext in COMMENT_KINDS[:1]:
                progs.append(([("site:M1", a[1]), ("text", "\n"), ("comment:NOTE2", ctext.replace("NOTE", "NOTE2")), ("text", "\n"), ("site:M2", b[1]), ("text", "\n\n"), ("site:M3", c[1])], {}))
    _SP.update(tier=tier, progs=progs)
    return progs


def plan(tier: str, seed: int):
    progs = _programs(tier)
    n = len(progs)
    shards = [(tier, lo, hi) for lo, hi in chunks(n, max(16, n // 200))]
    meta = {"space_size": n, "subspaces": {"programs": n, "data_sets": len(DATA)}, "bounds": {"max_sites": 2 if tier == "quick" else 3, "comment_kinds": 3, "distances": [0, 1, 2]}}
    return shards, meta


def run_shard(shard) -> ShardResult:
    tier, lo, hi = shard
    progs = _programs(tier)
    res = ShardResult()
    for i in range(lo, hi):
        pieces, partials = progs[i]
        res.cases += 1
        for di, d in enumerate(DATA):
            for sig, case, obs in run_program(pieces, partials, d, res):
                res.violation(sig, {"tier": tier, "index": i, "data_index": di, **case}, "every literal lookup is extracted (same ids, family, line); comments attach to the next message only", obs)
    if lo % 7 == 0:
        res.samples.append({"source": "".join(t for _k, t in progs[lo][0]), "partials": progs[lo][1]})
    return res


def replay(case: dict[str, Any]) -> list[dict[str, Any]]:
    res = ShardResult()
    pieces, partials = _programs(case.get("tier", "quick"))[case["index"]]
    for sig, c, obs in run_program(pieces, partials, DATA[case["data_index"]], None):
        res.violation(sig, case, "covered", obs)
    return res.violations
