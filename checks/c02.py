"""C02 — parsing and rendering are total over the LiquidError error model.

(a) every sequence of <= 3 (quick) / 4 (thorough) tokens of the Liquid-biased alphabet (tight and space-joined);
(b) the valid corpus (repo compliance templates, printed grammar programs, hand-written rich templates) under edit
    deviations: every prefix, every single-character deletion, insertion of every alphabet token at every offset;
(c) value sites - {{ x | f: y, z }} for EVERY registered filter f, {% for i in x limit: y offset: z %}, {% cycle x, y %},
    {% include x %}, {{ (x..y) }}, {{ x[y] }}, {% tablerow .. cols: y %}, translate filters with data-supplied messages -
    x all values of the JSON-like domain V and the type-confusing extension V+ (nan, inf, huge ints, negative sizes,
    wrong container types, deeply nested values, bytes);
(d) pumped families p q^k s (k = 3000) for p, q, s over the alphabet: must finish within the CPU budget.
All under limits (loop 1000, output 10^4, namespace 10^5, depth 30) with a DictLoader of partials.
Oracle: the call returns or raises a LiquidError subclass; str(e), e.detailed_message() and e.context() do not raise;
every case finishes within the CPU budget.
"""

from __future__ import annotations

import itertools
import math
from typing import Any

from liquid2.exceptions import LiquidError

from checks import c17
from mc import impl
from mc import progspace as ps
from mc.harness import ShardResult
from mc.harness import TimeBudget
from mc.harness import chunks
from mc.harness import cpu_budget
from mc.harness import h64

ID = "C02"
LEVEL = "exploration"
ENGINES = ["E1 spaces", "edit deviations"]
RULE = (
    "token sequences over SIGMA; corpus prefixes / single-edit mutants; every registered filter and value-taking tag "
    "site x (V u V+)^2 (quick) / ^3 (thorough); pumped families. Non-trivial: the case raised a LiquidError (the error "
    "model was exercised) or rendered with a type-confusing value reaching a filter/tag; distinct by (source, data)"
)
LEVEL_TEXT = (
    "Bounded-exhaustive exploration of source texts (token sequences, all prefixes and single-edit mutants of a valid "
    "corpus) and of type-confused data through every registered filter and value-taking tag, on the real implementation; "
    "the oracle is the exception type, printability of the error, and a CPU budget per case."
)
LEVEL_NOTE = (
    "'time bounded by the input and the limits' is decided as 'finishes within a generous CPU budget on every enumerated "
    "case and on every pumped family' (detects exponential / cubic blow-up, not quadratic cost); file-system loaders are "
    "C13's subject; block nesting is too shallow for Python's recursion limit to matter."
)
TECHNIQUE = "bounded-exhaustive enumeration of source texts (token sequences + edit deviations of a corpus) and type-confused data x all filters/tags with an exception-type + CPU-budget oracle"
ASSUMPTIONS = ["a 3 s CPU budget per small case and 10 s per pumped case stand in for 'time bounded by input size and limits'"]

LIMITS = {"loop_iteration_limit": 1000, "output_stream_limit": 10_000, "local_namespace_limit": 100_000}
PARTIALS = {"p": "{{ a }}{% block b %}P{% endblock %}", "q": "{% for i in a %}{{ i }}{% endfor %}", "a": "A", "1": "one",
            "pm": "{% macro m %}{% extends 'p' %}{% endmacro %}"}

_ENVS: dict[str, Any] = {}


def envs() -> dict[str, Any]:
    if not _ENVS:
        _ENVS["default"] = impl.make_env(limits=LIMITS, templates=PARTIALS)
        _ENVS["shopify"] = impl.make_env(limits=LIMITS, templates=PARTIALS, shopify=True, shorthand=True, auto_escape=True)
        # a caching loader whose cache namespace is the render variable `a` (any data value can end up in the cache key)
        from liquid2 import CachingDictLoader

        _ENVS["nscache"] = impl.make_env(limits=LIMITS, loader=CachingDictLoader(dict(PARTIALS), namespace_key="a"))
        # real files: names that come from data reach the file system
        from liquid2 import CachingFileSystemLoader

        from mc import seams

        root = seams.sandbox("verif_c02_")
        seams.write_tree(root, PARTIALS)
        _ENVS["fs"] = impl.make_env(limits=LIMITS, loader=CachingFileSystemLoader(root))
    return _ENVS


def deep(n: int) -> Any:
    x: Any = 1
    for _ in range(n):
        x = [x]
    return x


def deep_dict(n: int) -> Any:
    x: Any = 1
    for _ in range(n):
        x = {"a": [x]}
    return x


V: list[Any] = [None, True, False, 0, 1, 2, -1, 1.5, "", "a", "B", " ", "1", [], [1, 2, 3], ["b", "a", "a"], [[1, 2], [3]], {}, {"a": 1, "size": "S"}, {"a": {"b": [1]}}, range(1, 4)]
VPLUS: list[Any] = [
    float("nan"), float("inf"), float("-inf"), 10**400, 2**63, -(2**63), 1e308, "1e400", "inf", "nan", "50%", "%(x)s", "{0.__class__}",
    -3, "-3", deep(6), deep_dict(8), 10**5, "9" * 5000, [None, {"k": float("nan")}, "x"], {"first": 1, "last": 2}, 1e-320,
    10**5000, -(10**4300), [1, 10**5000],
]  # fmt: skip
VALL = V + VPLUS

DATASETS = [
    {"a": [1, 2, 3], "b": {"c": "d"}, "x": "s", "y": 2, "z": -1},
    {"a": float("nan"), "b": 10**400, "x": deep(6), "y": float("inf"), "z": "50%"},
    {"a": "str", "b": [None, {"k": 1}], "x": -3, "y": "1e400", "z": [[], {}]},
    {"a": 10**5000, "b": [10**5000], "x": {"k": 10**5000}, "y": -(10**5000), "z": 10**4300},
    {"a": "x" * 5000, "b": [1, 2], "x": "s", "y": 2, "z": "a/" * 600, "translations": 1, "user-name": "U", "a×b": "V"},
    # strings JSON can carry and UTF-8 cannot: lone surrogates
    {"a": "a\ud800b", "b": ["\udc00", {"k": "\ud83d"}], "x": {"\ud800": "v"}, "y": "\udfff" * 3, "z": "p\ud800", ")": 1, "a)s%(": 2},
]


def _srepr(x: Any, depth: int = 0) -> str:
    """repr() that survives integers the interpreter refuses to print."""
    if isinstance(x, bool) or not isinstance(x, (int, list, dict)):
        return repr(x)[:120]
    if isinstance(x, int):
        try:
            return repr(x) if abs(x) < 10**30 else f"<int of {x.bit_length()} bits>"
        except ValueError:
            return f"<int of {x.bit_length()} bits>"
    if depth > 3:
        return "..."
    if isinstance(x, list):
        return "[" + ", ".join(_srepr(v, depth + 1) for v in x[:6]) + "]"
    return "{" + ", ".join(f"{k!r}: {_srepr(v, depth + 1)}" for k, v in list(x.items())[:6]) + "}"


def printable_error(e: LiquidError) -> str | None:
    try:
        str(e)
        e.detailed_message()
        e.context()
    except Exception as x:  # noqa: BLE001
        return f"{type(x).__name__}: {x}"
    return None


def _sig_exc(phase: str, e: BaseException) -> str:
    return f"C02:foreign-exception:{phase}:{type(e).__name__}:{ps.norm_msg(str(e))[:60]}"


def run_source(env_name: str, src: str, datasets: list[dict[str, Any]], res: ShardResult | None, budget: float = 3.0, modes: tuple[str, ...] = ("render",)) -> list[tuple[str, Any, Any]]:
    """Parse and render one source. Returns (sig, case_extra, observed)."""
    out: list[tuple[str, Any, Any]] = []
    env = envs()[env_name]
    nontrivial = False
    try:
        with cpu_budget(budget):
            try:
                t = env.from_string(src, name="main")
            except LiquidError as e:
                nontrivial = True
                bad = printable_error(e)
                if bad:
                    out.append((f"C02:error-not-printable:parse:{ps.norm_msg(bad)[:60]}", {"phase": "parse"}, bad))
                t = None
            except RecursionError:
                t = None
                if res is not None:
                    res.count("recursion_in_parse")
            except TimeBudget:
                raise
            except Exception as e:  # noqa: BLE001
                out.append((_sig_exc("parse", e), {"phase": "parse"}, f"{type(e).__name__}: {e}"))
                t = None
            if t is not None:
                for di, d in itertools.product(range(len(datasets)), modes):
                    di, phase = di, d
                    d = datasets[di]
                    if res is not None:
                        res.evaluations += 1
                    try:
                        if phase == "render":
                            t.render(**d)
                        else:
                            import asyncio

                            asyncio.run(t.render_async(**d))
                    except LiquidError as e:
                        nontrivial = True
                        bad = printable_error(e)
                        if bad:
                            out.append((f"C02:error-not-printable:{phase}:{ps.norm_msg(bad)[:60]}", {"phase": phase, "data_index": di}, bad))
                    except RecursionError:
                        if res is not None:
                            res.count("recursion_in_render")
                    except TimeBudget:
                        raise
                    except Exception as e:  # noqa: BLE001
                        out.append((_sig_exc(phase, e), {"phase": phase, "data_index": di}, f"{type(e).__name__}: {e}"))
    except TimeBudget as tb_exc:
        # where the time went: a range handed to a sequence filter is the recorded finding (the filter materialises the
        # range outside every limit) - recognised by the frame the budget ran out in, not by the spelling of the source
        cls = ""
        tb = tb_exc.__traceback__
        while tb is not None:
            fr = tb.tb_frame
            if fr.f_code.co_filename.endswith("liquid2/filter.py") and any(isinstance(v, range) and (v.stop - v.start) > 10**6 for v in fr.f_locals.values()):
                cls = ":source:range-literal-through-filter"
            tb = tb.tb_next
        out.append(("C02:cpu-budget-exceeded" + cls, {"phase": "any", "budget_s": budget}, f"did not finish within {budget} s"))
    if res is not None:
        if nontrivial:
            res.nontrivial.add(h64([env_name, src]))
        res.outcomes.add(h64([bool(out), nontrivial]))
    return out


# ------------------------------------------------------------------ (c) value sites


def value_sites(filters: list[str]) -> list[tuple[str, int]]:
    """(source with x/y/z variables, arity used)."""
    sites: list[tuple[str, int]] = []
    for f in filters:
        sites.append(("{{ x | " + f + " }}", 1))
        sites.append(("{{ x | " + f + ": y }}", 2))
        sites.append(("{{ x | " + f + ": y, z }}", 3))
        sites.append(("{{ x | " + f + ": y, k: z }}", 3))
    sites += [
        ("{% for i in x limit: y offset: z %}{{ i }}{% endfor %}", 3),
        ("{% for i in x reversed limit: y %}{{ forloop.rindex }}{% endfor %}", 2),
        ("{% for i in (x..y) %}{{ i }}{% endfor %}", 2),
        ("{{ (x..y) }}{{ (x..y) | size }}", 2),
        ("{{ (x..y) | join: z }}", 3),
        ("{% cycle x, y %}{% cycle x: y, z %}", 3),
        ("{% include x %}", 1),
        ("{% include 'q' with x as a %}{% include 'q' for x as a %}", 1),
        ("{% render 'q' with x as a %}{% render 'q' for x as a %}", 1),
        ("{{ x[y] }}{{ x[y][z] }}{{ x.first }}{{ x.last }}{{ x.size }}", 3),
        ("{% tablerow i in x cols: y limit: z %}{{ i }}{% endtablerow %}", 3),
        ("{% tablerow i in x cols: y offset: z %}{{ tablerowloop.col }}{% endtablerow %}", 3),
        ("{{ x | t: y: z }}{{ x | gettext: a: y }}", 3),
        ("{{ x | ngettext: y, z }}{{ x | pgettext: y }}{{ x | npgettext: y, x, z }}", 3),
        ("{% translate count: x, context: y, n: z %}Hello {{ n }}{% plural %}Hellos {{ n }}{% endtranslate %}", 3),
        ("{% if x < y or x contains z and y in x %}t{% endif %}{% if x == y and z <= x %}u{% endif %}", 3),
        ("{% case x %}{% when y, z %}w{% else %}e{% endcase %}", 3),
        ("{% assign v = x %}{% capture c %}{{ v }}{{ y }}{% endcapture %}{{ c | size }}{% increment x %}", 2),
        ("{{ '${x} and ${y | upcase}' }}{{ x if y else z }}{{ x, y, z | join: '-' }}", 3),
        ("{% macro m p, q: y %}{{ p }}{{ q }}{% endmacro %}{% call m x, q: z %}{% call x %}", 3),
        ("{% with a: x, b: y %}{{ a }}{{ b[z] }}{% endwith %}", 3),
        ("{{ x | map: i => i.a | sort: j => j | where: k => k == y | sum }}", 2),
        ("{{ x | date: y }}{{ y | date: '%Y' }}{{ x | json: y }}{{ x | default: y, allow_false: z }}", 3),
    ]
    return sites


_SITES: dict[str, Any] = {}


def sites_for(tier: str) -> list[tuple[str, int]]:
    if "s" not in _SITES:
        _SITES["s"] = value_sites(sorted(envs()["shopify"].filters))
    return _SITES["s"]


def check_site(site: str, arity: int, tier: str, res: ShardResult | None, only: tuple | None = None) -> list[tuple[str, Any, Any, Any]]:
    out: list[tuple[str, Any, Any, Any]] = []
    env = envs()["shopify"]
    try:
        t = env.from_string(site, name="main")
    except LiquidError:
        return out
    except Exception as e:  # noqa: BLE001
        return [(_sig_exc("parse", e), {"site": site}, "LiquidError or template", f"{type(e).__name__}: {e}")]
    nv = len(VALL)
    depth = min(arity, 2 if tier == "quick" else 3)
    # the third argument ranges over a reduced set in quick mode
    zs_quick = [0, 3]
    combos: Any
    if arity == 1:
        combos = ((i, 0, 0) for i in range(nv))
    elif depth == 2 or arity == 2:
        combos = ((i, j, k) for i in range(nv) for j in range(nv) for k in (zs_quick if arity == 3 else [0]))
    else:
        combos = ((i, j, k) for i in range(nv) for j in range(nv) for k in range(nv))
    seen_sigs: set[str] = set()
    slow: set[tuple[str, int]] = set()  # after one time-out, other combinations with the same huge value are skipped
    for i, j, k in combos:
        if only is not None and only != (i, j, k):
            continue
        if ("x", i) in slow or ("y", j) in slow or ("z", k) in slow:
            if res is not None:
                res.count("skipped_after_timeout_with_same_value")
            continue
        d = {"x": VALL[i], "y": VALL[j], "z": VALL[k], "a": VALL[k]}
        if res is not None:
            res.evaluations += 1
        try:
            with cpu_budget(2.0):
                try:
                    t.render(**d)
                    kind = "ok"
                except LiquidError as e:
                    kind = "liquid"
                    bad = printable_error(e)
                    if bad:
                        sig = f"C02:error-not-printable:render:{ps.norm_msg(bad)[:60]}"
                        if sig not in seen_sigs:
                            seen_sigs.add(sig)
                            out.append((sig, {"site": site, "values": [i, j, k]}, "printable error", bad))
                except RecursionError:
                    kind = "recursion"
                except TimeBudget:
                    raise
                except Exception as e:  # noqa: BLE001
                    kind = "foreign"
                    sig = _sig_exc("render", e)
                    if sig not in seen_sigs:
                        seen_sigs.add(sig)
                        out.append((sig, {"site": site, "values": [i, j, k], "data": _srepr(d)}, "LiquidError or output", f"{type(e).__name__}: {e}"[:300]))
        except TimeBudget:
            kind = "timeout"
            big = [(n, idx) for n, idx in (("x", i), ("y", j), ("z", k)) if isinstance(VALL[idx], (int, float)) and not isinstance(VALL[idx], bool) and abs(VALL[idx]) > 10**6]
            slow.update(big or [("y", j)])
            sig = "C02:cpu-budget-exceeded:value-site:" + _site_class(site)
            if sig not in seen_sigs:
                seen_sigs.add(sig)
                out.append((sig, {"site": site, "values": [i, j, k], "data": _srepr(d)}, "finishes within 3 s", "timeout"))
        if res is not None:
            res.outcomes.add(h64([kind]))
            if kind != "ok" or i >= len(V) or j >= len(V):
                res.nontrivial.add(h64([site, i, j, k]))
    return out


def _site_class(site: str) -> str:
    if "(x..y)" in site:
        return "huge-range-through-filter" if "|" in site else "huge-range"
    import re

    m = re.search(r"\|\s*([a-z_0-9]+)", site)
    return "filter:" + m.group(1) if m else "tag"


# ------------------------------------------------------------------ (d) pumps

PUMP_ALPHA = ["{{", "}}", "{%", "%}", "{#", "#}", "'", '"', "\\", "${", "a", ".", "[", "]", "|", ":", ",", "(", ")", "..", "1", "-", " ", "\n", "if", "not", "comment", "raw", "x =>", "{% if a %}", "{% endif %}", "a.b", "[a]", "'${'", "}"]


def pumps() -> list[str]:
    out = []
    k = 3000
    for p in ("", "{{ ", "{% if ", "{{ '", "{% liquid ", "{# ", "{% comment %}", "{% raw %}", "{{ a | f: "):
        for q in PUMP_ALPHA:
            for s in ("", " }}", " %}", "'}}", "#}", "{% endcomment %}"):
                out.append(p + q * k + s)
    return out


# ------------------------------------------------------------------ concurrent renders: totality under every interleaving

HUGE = "9" * 5000
HUGE_SOURCES = [
    "{{ " + HUGE + " }}", "{{ -" + HUGE + " }}", "{{ x | plus: -" + HUGE + " }}", "{% for i in (1..-" + HUGE + ") %}{{ i }}{% endfor %}",
    "{{ a[" + HUGE + "] }}", "{{ a[-" + HUGE + "] }}", "{{ 1." + HUGE + " }}", "{{ " + HUGE + "e5 }}", "{{ 1e" + HUGE + " }}", "{{ -1e-" + HUGE + " }}",
    "{{ a." + HUGE + " }}", "{% if x > -" + HUGE + " %}y{% endif %}", "{% for i in a limit: -" + HUGE + " offset: " + HUGE + " %}{% endfor %}",
    "{% case x %}{% when -" + HUGE + " %}{% endcase %}", "{% cycle " + HUGE + ", -" + HUGE + " %}", "{{ '" + HUGE + "' | plus: 1 }}", "{{ '-" + HUGE + "' | abs }}",
    "{% assign y = -" + HUGE + " %}{{ y }}", "{{ (1..3) | slice: -" + HUGE + " }}", "{{ 1e4300 }}", "{{ -1e4300 }}", "{{ 12e4299 }}", "{{ 1e4299 | size }}",
]  # fmt: skip

def boundary_sources() -> list[str]:
    """Integer literals in exponent form whose digit count straddles the interpreter's int -> str limit (4300 digits),
    x mantissa shapes, at every site that may print, compare, count with or index by the literal itself."""
    lits = []
    for digits in (4299, 4300, 4301, 4302):
        for mant in ("1", "25", "123", "-10", "-7"):
            lits.append(mant + "e" + str(digits - len(mant.lstrip("-"))))
    sites = [
        "{{ L }}", "{% cycle L, 2 %}", "{% cycle L: 1, 2 %}{% cycle L: 1, 2 %}", "{% for i in (L..L) %}{{ i }}{% endfor %}", "{% for i in (1..L) limit: 2 %}{{ i }}{% endfor %}",
        "{% for i in (L..3) %}{{ i }}{% endfor %}", "{% for i in b limit: L %}{{ i }}{% endfor %}", "{% for i in b offset: L %}{{ i }}{% endfor %}", "{% assign y = L %}{{ y }}{{ y | json }}",
        "{{ x | plus: L }}", "{{ b[L] }}", "{% case x %}{% when L %}w{% endcase %}", "{% if x == L or L > 1 %}y{% endif %}", "{{ L | size }}{{ L | json }}{{ L | times: 1 }}", "{{ (L..L) }}{{ (1..L) | first }}",
        "{% tablerow i in (L..L) cols: L %}{{ i }}{% endtablerow %}", "{% increment L %}", "{% render 'p', a: L %}{% include 'p' with L as a %}", "{% macro m q: L %}{{ q }}{% endmacro %}{% call m %}{% call m L %}",
        "{{ 'v ${L}' }}", "{% liquid echo L\ncycle L, 1 %}", "{{ b | slice: L }}{{ 'abc' | truncate: L }}", "{% with q: L %}{{ q }}{% endwith %}", "{{ L if x else L || default: L }}",
    ]
    return [s_.replace("L", lit) for s_ in sites for lit in lits]


# inputs behind repaired defects (kept in the corpus so that each stays decided)
REGRESSION_SOURCES = [
    "{% if 'abc' contains a %}y{% endif %}{% if a in 'abc' %}y{% endif %}", "{{ a | map: x: 1 => 2 }}", "{{ a | where: x: 'k' => x }}",
    "{% assign r = (0..9223372036854775807) %}{{ r.size }}{{ r.first }}{{ r.last }}", "{{ (1..a).size }}{% assign r = (1..a) %}{{ r.size }}",
    "{{ 'a' | t }}{{ 'a' | gettext }}{{ 'a' | ngettext: 'b', 2 }}{{ 'a' | pgettext: 'c' }}{{ 'a' | npgettext: 'c', 'b', 2 }}", "{% translate %}a{% endtranslate %}",
    "{{ b | join: environment: 1 }}", "{{ 'a' | t: context: 1 }}", "{{ 'x' | escape: environment: b }}", "{{ 'now' | date: '%Y', environment: x }}", "{{ b | map: i => i, context: 2 }}",
    "{{ '<![ab[x]]>' | strip_html }}{{ '<![if IE]>x<![endif]>' | strip_html }}{{ '<!x' | strip_html }}{{ '<?php ?>' | strip_html }}",
    "{% translate %}Hello {{ user-name }}{% endtranslate %}", "{% translate %}{{ a×b }} 100%{% endtranslate %}",
    "{% include 'pm' %}{% call m %}", "{% macro m2 %}{% extends 'p' %}{% endmacro %}{% call m2 %}",
    "{% for i in b %}{% for k in forloop %}{{ k }}{% endfor %}{% endfor %}", "{% for i in b %}{{ forloop | json }}{{ forloop | size }}{{ forloop | first }}{% endfor %}",
    "{% include a %}{% include z %}{% render 'p' for a %}", "{% translate context: a %}m{% endtranslate %}{% translate count: a %}m{% plural %}ms{% endtranslate %}",
    "{% translate %}{% endtranslate %}", "{{ l[a] }}{{ b[a] }}{{ x[a] }}",
    "{% translate %}{{ ['a%%b'] }}{% endtranslate %}", "{% translate %}%{{ ['%'] }}%{{ ['x%%'] }}{% endtranslate %}", "{% translate %}{{ ['50%'] }} x%{% plural %}{{ ['%%'] }}{% endtranslate %}",
    "{% translate %}50%{{ x }}{% endtranslate %}", "{% translate %}%%{{ x }}%{{ y }}%(z)s{% endtranslate %}", "{% translate %}{{ [')'] }}{% endtranslate %}", "{% translate %}{{ ['a)s%('] }}%{{ x }}{% endtranslate %}",
    "{% render 'p' for (1..99999999999999999999999) %}", "{% include 'p' for (1..99999999999999999999999) %}", "{% include 'p' with (1..99999999999999999999999) %}", "{% render 'q' with (1..99999999999999999999999) as a %}",
    "{{ [a] }}{{ [y] }}", "{{ [a].b }}", "{% assign q = [a] %}{{ q }}", "{% if [a] %}{% endif %}{% for i in [a] %}{% endfor %}", "{{ [b[0]] }}{{ [x.k] | default: 1 }}",
    '{{ "\\u00\ud800a" }}', '{{ "\ud800" }}', "{{ \ud800 }}", "{{ a['\udc00'] }}", '{{ "\\ud83d\ud800" }}', "\ud800{{ x }}", "{{ a }}{{ b }}{{ x }}{% capture c %}{{ y | upcase }}{% endcapture %}{{ c | escape }}{{ z | url_encode }}{{ a | json }}",
    "{% if (1..150000000) contains 'a' %}y{% endif %}", "{% if 1.5 in (1..150000000) %}y{% endif %}", "{% if x in (1..150000000) %}y{% endif %}{% if (1..150000000) contains y %}y{% endif %}", "{% if (1..150000000) contains nil or true in (1..150000000) %}y{% endif %}",
]  # fmt: skip

SCHED_PARTS = {"part": "P{{ x }}", "other": "O"}
SCHED_JOBS = ["{% include 'part' %}", "{% render 'part' %}", "{% include 'other' %}{% include 'part' %}", "{% include 'missing' %}", "{% include 'part' %}{{ 1 | divided_by: 0 }}"]


ESC_ATOMS = ["a", " ", "\\n", "\\\\", "\\'", '\\"', "\\uD83D", "\\uDE00", "\\u00e9", "\\u12", "\\u", "\\x", "\\", "${", "$", "}", "\\$", "\\/", "\\u0000", "\\u0007"]


def escape_sources(tier: str) -> list[str]:
    """String literals made of every word of <= 2 (quick) / 3 atoms over the escape alphabet (complete and truncated
    escape sequences, each half of a surrogate pair, interpolation openers), in both quote styles, as an output, a
    filter argument, a bracketed path segment and the tail of a template string."""
    out: list[str] = []
    k = 2 if tier == "quick" else 3
    words = [""]
    for n_ in range(1, k + 1):
        words += ["".join(w) for w in itertools.product(ESC_ATOMS, repeat=n_)]
    if tier == "quick":
        # all words of three atoms that END in one of the surrogate halves or a truncated escape
        words += ["".join(w) + t for w in itertools.product(ESC_ATOMS[:8], repeat=2) for t in ("\\uD83D", "\\uDE00", "\\u12", "\\")]
    for w in words:
        for q in ("'", '"'):
            lit = q + w + q
            out += ["{{ " + lit + " }}", "{{ x | append: " + lit + " }}", "{{ b[" + lit + "] }}", "{% assign s = " + q + "${x}" + w + q + " %}{{ s }}"]
    return out


# ------------------------------------------------------------------ histories on a caching file-system loader

FS_RENDERS = [("render", t, m) for t in ("include", "render", "top") for m in ("sync", "async")]
FS_FAULTS = [("fault", f) for f in ("delete", "dir2file", "loop", "file2dir", "dangling", "badutf8", "restore")]


def _rm(path: str) -> None:
    import os
    import shutil

    if os.path.islink(path) or os.path.isfile(path):
        os.remove(path)
    elif os.path.isdir(path):
        shutil.rmtree(path)


def _fs_fault(root: str, what: str) -> None:
    import os

    d = os.path.join(root, "partials")
    f = os.path.join(d, "card.liquid")
    if what == "restore":
        _rm(d)
        os.mkdir(d)
        with open(f, "w", encoding="utf-8") as fd:
            fd.write("[card]")
        return
    if what == "dir2file":
        _rm(d)
        with open(d, "w", encoding="utf-8") as fd:
            fd.write("not a directory")
        return
    if not os.path.isdir(d) or os.path.islink(d):
        return  # the directory is gone already: the file-level faults have nothing to act on
    _rm(f)
    if what == "loop":
        os.symlink("card.liquid", f)  # points at itself
    elif what == "file2dir":
        os.mkdir(f)
    elif what == "dangling":
        os.symlink("nowhere.liquid", f)
    elif what == "badutf8":
        with open(f, "wb") as fd:
            fd.write(b"[caf\xe9 {{ x }}\xff]")  # not text in the loader's encoding


def fs_histories(tier: str) -> list[tuple]:
    """Every history of <= 3 (quick) / 4 operations that ends in a render."""
    ops = FS_RENDERS + FS_FAULTS
    out = []
    for n_ in range(1, (3 if tier == "quick" else 4) + 1):
        for h in itertools.product(ops, repeat=n_):
            if h[-1][0] == "render" and any(o[0] == "fault" for o in h):
                out.append(h)
    return out


def check_fs_history(hist: tuple, res: ShardResult | None) -> list[tuple[str, Any, Any, Any]]:
    """A cached template whose file changes kind between two loads: every load returns or raises a LiquidError."""
    import asyncio
    import os

    from liquid2 import CachingFileSystemLoader

    from mc import seams

    out: list[tuple[str, Any, Any, Any]] = []
    root = seams.sandbox("verif_c02h_")
    try:
        seams.write_tree(root, {"page_include.liquid": "{% include 'partials/card.liquid' %}", "page_render.liquid": "{% render 'partials/card.liquid' %}"})
        _fs_fault(root, "restore")
        env = impl.make_env(limits=LIMITS, loader=CachingFileSystemLoader(root))
        for i, op in enumerate(hist):
            if op[0] == "fault":
                _fs_fault(root, op[1])
                continue
            _, tag, mode = op
            name = "partials/card.liquid" if tag == "top" else f"page_{tag}.liquid"
            try:
                with cpu_budget(3.0):
                    if mode == "sync":
                        env.get_template(name).render()
                    else:
                        async def go() -> str:
                            return await (await env.get_template_async(name)).render_async()

                        asyncio.run(go())
                if res is not None:
                    res.outcomes.add(h64("ok"))
            except LiquidError as e:
                bad = printable_error(e)
                if res is not None:
                    res.outcomes.add(h64(type(e).__name__))
                if bad:
                    out.append((f"C02:fs-history:unprintable-error:{bad}", {"history": [list(o) for o in hist], "step": i}, "printable", bad))
            except TimeBudget:
                out.append(("C02:fs-history:cpu-budget-exceeded", {"history": [list(o) for o in hist], "step": i}, "returns in time", "budget exceeded"))
            except Exception as e:  # noqa: BLE001
                out.append((f"C02:fs-history:foreign-exception:{type(e).__name__}", {"history": [list(o) for o in hist], "step": i}, "returns or raises LiquidError", f"{type(e).__name__}: {e}"[:200]))
                break
            if res is not None:
                res.evaluations += 1
    finally:
        import shutil

        shutil.rmtree(root, ignore_errors=True)
    if res is not None:
        res.nontrivial.add(h64(repr(hist)))
    return out


def _sched_env(stale: bool) -> Any:
    """A caching loader whose freshness check and source lookup really suspend; optionally with 'part' cached and stale."""
    import asyncio

    from liquid2.loader import BaseLoader
    from liquid2 import Environment
    from liquid2.builtin.loaders.mixins import CachingLoaderMixin
    from liquid2.exceptions import TemplateNotFoundError
    from liquid2.loader import TemplateSource

    versions = {"part": 1}

    class SlowLoader(CachingLoaderMixin, BaseLoader):
        def __init__(self) -> None:
            super().__init__(auto_reload=True)

        def get_source(self, env: Any, template_name: str, *, context: Any = None, **kw: Any) -> Any:
            if template_name not in SCHED_PARTS:
                raise TemplateNotFoundError(template_name)
            v = versions.get(template_name, 0)
            return TemplateSource(SCHED_PARTS[template_name], template_name, lambda: versions.get(template_name, 0) == v)

        async def get_source_async(self, env: Any, template_name: str, *, context: Any = None, **kw: Any) -> Any:
            await asyncio.sleep(0)
            if template_name not in SCHED_PARTS:
                raise TemplateNotFoundError(template_name)
            v = versions.get(template_name, 0)

            async def uptodate() -> bool:
                await asyncio.sleep(0)
                return versions.get(template_name, 0) == v

            return TemplateSource(SCHED_PARTS[template_name], template_name, uptodate)

    env = Environment(loader=SlowLoader())
    return env, versions


def check_schedule(combo: tuple[int, ...], stale: bool, res: ShardResult | None, max_runs: int = 20000) -> list[tuple[str, Any, Any, Any]]:
    from mc.vloop import VLoop
    from mc.vloop import explore
    from mc.vloop import run_solo

    out: list[tuple[str, Any, Any, Any]] = []
    seen: set[str] = set()

    def run(loop: VLoop) -> Any:
        env, versions = _sched_env(stale)
        if stale:
            # warm the cache on a throw-away loop, then make the entry stale
            run_solo(env.get_template_async("part"))
            versions["part"] = 2
        return loop.run_all([env.from_string(SCHED_JOBS[i]).render_async(x=1) for i in combo])

    def on_run(loop: VLoop, result: Any) -> None:
        if res is not None:
            res.evaluations += 1
            res.transitions += loop.steps
            res.states.add(h64([combo, stale, loop.choices]))
            if any(loop.choices):
                res.nontrivial.add(h64([combo, stale, loop.choices]))
        for i, (kind, val) in enumerate(result):
            if kind != "ok" and not isinstance(val, LiquidError):
                sig = f"C02:foreign-exception:concurrent-render:{type(val).__name__}"
                if sig not in seen:
                    seen.add(sig)
                    out.append((sig, {"kind": "sched", "jobs": list(combo), "stale": stale, "schedule": list(loop.choices), "task": i}, "output or LiquidError", f"{type(val).__name__}: {val}"[:200]))
            if res is not None:
                res.outcomes.add(h64([kind, type(val).__name__]))

    stats = explore(run, max_runs=max_runs, on_run=on_run)
    if res is not None and stats["capped"]:
        res.capped = True
    return out


# ------------------------------------------------------------------ harness interface

_SP: dict[str, Any] = {}


def _prepare(tier: str) -> None:
    if _SP.get("tier") == tier:
        return
    corp = c17.corpus_cached(tier)
    if tier == "quick":
        corp_m = sorted(corp, key=lambda s: (len(s), s))
        corp_m = [s for s in corp_m if 10 <= len(s) <= 80][:500]
        inserts = c17.QUICK_INSERTS
    else:
        # (parse + render of every mutant: the sources of <= 120 characters; every source is run unmutated)
        corp_m = [s for s in corp if len(s) <= 120]
        inserts = c17.SIGMA
    corp = list(corp) + HUGE_SOURCES + REGRESSION_SOURCES + boundary_sources() + c17.path_word_sources()
    _SP.update(tier=tier, corpus=corp, corp_m=corp_m, inserts=inserts, pumps=pumps(), escapes=escape_sources(tier))


def plan(tier: str, seed: int):
    _prepare(tier)
    envs()
    k = 3 if tier == "quick" else 4
    m = len(c17.SIGMA)
    shards: list[Any] = []
    total = 0
    for kk in range(0, k + 1):
        size = m**kk
        for j in ("", " "):
            if kk <= 1 and j == " ":
                continue
            for lo, hi in chunks(size, 64 if kk >= 3 else 1):
                shards.append(("sigma", tier, kk, j, lo, hi))
            total += size
    for lo, hi in chunks(len(_SP["corpus"]), 16):
        shards.append(("corpus", tier, lo, hi))
    total += len(_SP["corpus"])
    for lo, hi in chunks(len(_SP["corp_m"]), 128):
        shards.append(("mutants", tier, lo, hi))
    nm = sum(1 + 2 * len(s) + (len(s) + 1) * len(_SP["inserts"]) for s in _SP["corp_m"])
    total += nm
    sites = sites_for(tier)
    for i in range(len(sites)):
        shards.append(("site", tier, i))
    total += len(sites)
    for lo, hi in chunks(len(_SP["pumps"]), 64):
        shards.append(("pump", tier, lo, hi))
    total += len(_SP["pumps"])
    for lo, hi in chunks(len(_SP["escapes"]), 32):
        shards.append(("escapes", tier, lo, hi))
    total += len(_SP["escapes"])
    _SP["fsh"] = fs_histories(tier)
    for lo, hi in chunks(len(_SP["fsh"]), 32):
        shards.append(("fsh", tier, lo, hi))
    total += len(_SP["fsh"])
    k_tasks = 2 if tier == "quick" else 3
    combos = list(itertools.combinations_with_replacement(range(len(SCHED_JOBS)), k_tasks))
    for c in combos:
        for stale in (False, True):
            shards.append(("sched", tier, c, stale))
    total += 2 * len(combos)
    # long-running shards first (value sites contain the time-outs, pumps the 10 s budgets)
    order = {"site": 0, "pump": 1, "corpus": 2, "mutants": 3, "sigma": 4, "sched": 2, "escapes": 3, "fsh": 2}
    shards.sort(key=lambda sh: order[sh[0]])
    meta = {
        "space_size": total,
        "subspaces": {"sigma": sum((m**kk) * (1 if kk <= 1 else 2) for kk in range(k + 1)), "corpus": len(_SP["corpus"]), "mutants": nm, "concurrent-render-sets": 2 * len(combos),
                      "value-sites": len(sites), "values": len(VALL), "pumps": len(_SP["pumps"]), "escape-literals": len(_SP["escapes"]), "file-system-histories": len(_SP["fsh"])},
        "bounds": {"sigma_len": k, "value_depth": 2 if tier == "quick" else 3, "pump_k": 3000, "limits": LIMITS},
    }
    return shards, meta


def _sources(res: ShardResult, srcs, env_names=("default", "shopify", "nscache", "fs"), datasets=None, budget: float = 3.0, modes: tuple[str, ...] = ("render",)) -> None:
    datasets = datasets or DATASETS[:2]
    for src in srcs:
        res.cases += 1
        for en in env_names:
            for sig, extra, obs in run_source(en, src, datasets, res, budget, modes if en in ("default", "fs") else ("render",)):
                res.violation(sig, {"kind": "source", "env": en, "source": src, **extra}, "returns or raises a printable LiquidError in time", obs, repro=_repro(en, src))


def run_shard(shard) -> ShardResult:
    res = ShardResult()
    kind, tier = shard[0], shard[1]
    _prepare(tier)
    if kind == "sigma":
        _, _, kk, j, lo, hi = shard
        _sources(res, (c17.sigma_source(kk, i, j) for i in range(lo, hi)), env_names=("default",), datasets=DATASETS[:1])
    elif kind == "corpus":
        _sources(res, _SP["corpus"][shard[2] : shard[3]], datasets=DATASETS, modes=("render", "render_async"))
        res.samples.append(_SP["corpus"][shard[2]][:100])
    elif kind == "mutants":
        for src in _SP["corp_m"][shard[2] : shard[3]]:
            _sources(res, c17.mutants(src, _SP["inserts"]), env_names=("default",), datasets=DATASETS[1:2])
    elif kind == "site":
        site, arity = sites_for(tier)[shard[2]]
        res.cases += 1
        for sig, case, exp, obs in check_site(site, arity, tier, res):
            res.violation(sig, {"kind": "site", "tier": tier, **case}, exp, obs, repro=_repro_site(case))
        if shard[2] % 17 == 0:
            res.samples.append({"site": site, "values": "all of V u V+"})
    elif kind == "fsh":
        if "fsh" not in _SP:
            _SP["fsh"] = fs_histories(tier)
        for h in _SP["fsh"][shard[2] : shard[3]]:
            res.cases += 1
            for sig, case, exp, obs in check_fs_history(h, res):
                res.violation(sig, {"kind": "fsh", "tier": tier, **case}, exp, obs)
    elif kind == "escapes":
        _sources(res, _SP["escapes"][shard[2] : shard[3]], env_names=("default",), datasets=DATASETS[:1])
    elif kind == "sched":
        res.cases += 1
        for sig, case, exp, obs in check_schedule(shard[2], shard[3], res, 20000 if tier == "quick" else 100000):
            res.violation(sig, {"tier": tier, **case}, exp, obs)
    else:
        _sources(res, _SP["pumps"][shard[2] : shard[3]], env_names=("default",), datasets=DATASETS[:1], budget=10.0)
    return res


def _repro(env_name: str, src: str) -> str:
    return (
        "# stand-alone reproduction (C02): only LiquidError may escape\nimport sys; sys.path.insert(0, '/verif')\n"
        f"from checks import c02\nprint(c02.run_source({env_name!r}, {src!r}, c02.DATASETS, None))\n"
    )


def _repro_site(case: dict[str, Any]) -> str:
    return (
        "# stand-alone reproduction (C02)\nimport sys; sys.path.insert(0, '/verif')\nfrom checks import c02\n"
        f"i, j, k = {case.get('values')!r}\n"
        f"t = c02.envs()['shopify'].from_string({case.get('site')!r})\n"
        "print(t.render(x=c02.VALL[i], y=c02.VALL[j], z=c02.VALL[k], a=c02.VALL[k]))\n"
    )


def replay(case: dict[str, Any]) -> list[dict[str, Any]]:
    res = ShardResult()
    envs()
    if case["kind"] == "source":
        budget = 10.0 if len(case["source"]) > 2000 else 3.0
        for sig, extra, obs in run_source(case["env"], case["source"], DATASETS, None, budget, ("render", "render_async")):
            res.violation(sig, case, "returns or raises a printable LiquidError in time", obs)
    elif case["kind"] == "fsh":
        for sig, c, exp, obs in check_fs_history(tuple(tuple(o) for o in case["history"]), None):
            res.violation(sig, case, exp, obs)
    elif case["kind"] == "sched":
        for sig, c, exp, obs in check_schedule(tuple(case["jobs"]), case["stale"], None):
            res.violation(sig, case, exp, obs)
    else:
        site = case["site"]
        arity = next(a for s, a in sites_for(case.get("tier", "quick")) if s == site)
        for sig, c, exp, obs in check_site(site, arity, case.get("tier", "quick"), None, only=tuple(case["values"])):
            res.violation(sig, case, exp, obs)
    return res.violations
