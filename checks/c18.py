"""C18 — whitespace control changes nothing but whitespace.

Enumerated: (A) programs `text st text` for every leaf and one-level block, with every assignment of
{none,-,~,+} to every marker position (all 4^k, k <= 4 quick / 6 thorough) x default_trim in {+,-,~} x
suppress_blank_control_flow_blocks in {on,off} x 3 data sets; (B) the same cube on four small programs
with the surrounding text built from every character str.strip() removes; (C) literal-only programs
(text, the three comment kinds, raw, assign) up to length 3 with every marker assignment.
Oracle: (i) the output with all isspace() characters removed is the same for every marker assignment and
configuration; (ii) with default_trim '+', no '-'/'~' markers and suppression off, literal-only programs
reproduce their text character for character ('+' markers equal no markers for every program); (iii) a
render in which markers are only none/'~' equals the unmarked render once '\\r' and '\\n' are removed.
"""

from __future__ import annotations

import bisect
import itertools
from typing import Any

from liquid2.exceptions import LiquidError

from mc import grammar
from mc import impl
from mc import progspace as ps
from mc.harness import ShardResult
from mc.harness import h64
from mc.lang import Layout
from mc.vloop import run_solo
from mc.lang import marker_positions
from mc.lang import print_program

ID = "C18"
LEVEL = "exploration"
ENGINES = ["E1 spaces"]
RULE = (
    "programs x all 4^k marker assignments x default_trim x suppress x data; a case (program, assignment) is "
    "non-trivial when the assignment contains at least one '-' or '~' next to whitespace text and the raw outputs of "
    "the marked and unmarked renders differ (trimming really happened); distinct by printed source"
)
LEVEL_TEXT = (
    "Bounded-exhaustive exploration of the full marker cube on the real lexer/parser/renderer with a differential "
    "oracle (whitespace-insensitive equality against the unmarked render) plus an exact oracle for literal-only programs."
)
LEVEL_NOTE = (
    "Programs do not inspect captured text (no size/comparison of captures); 'whitespace' is str.isspace(); the exact "
    "(character for character) oracle is applied to literal-only programs here and to all model programs in C01."
)
TECHNIQUE = "bounded-exhaustive enumeration of the whitespace-control marker cube x configurations with a whitespace-insensitive differential oracle + all two-environment load histories over one shared caching loader"
ASSUMPTIONS = ["whitespace = characters for which str.isspace() is true (the set str.strip() removes)"]

MARKS = ("", "-", "~", "+")
STRIP_CHARS = (
    " \t\n\r\x0b\x0c\x1c\x1d\x1e\x1f\x85\xa0            "
    "    　"
)
CONFIGS = [(t, s) for t in "+-~" for s in (True, False)]
STRIP_CHARS_ALL = " \t\r\n\x0b\x0c"

_STATE: dict[str, Any] = {}


def nows(s: str) -> str:
    return "".join(ch for ch in s if not ch.isspace())


def nocrlf(s: str) -> str:
    return s.replace("\r", "").replace("\n", "")


def _programs(seed: int, tier: str) -> dict[str, list[tuple]]:
    n = grammar.Names(seed)
    l0 = grammar.level0(seed)
    l1 = grammar.level1_small(seed) if tier == "quick" else grammar.level1(seed)
    pre, post = ("text", "A \t\n"), ("text", "\r\n \x0b Z")
    a = [(pre, st, post) for st in list(l0) + list(l1)]
    # (B) unicode whitespace around four small programs
    smalls = [
        ("case", ("var", n.g, ()), (), None),  # a case tag without when or else: its two tags are adjacent
        ("out", ("var", n.g, ())),
        ("if", ((("var", n.g, ()), (("text", " y "),)),), None),
        ("comment", "hash", " c "),
        ("raw", " r "),
    ]
    b = []
    for ch in STRIP_CHARS:
        for st in smalls:
            b.append((("text", "A" + ch), st, ("text", ch + "Z")))
            b.append((("text", ch), st, ("text", "Z" + ch)))
    # (C) literal-only programs
    lits = [
        ("text", "x "),
        ("text", " \n"),
        ("text", "\ty\r\n"),
        ("comment", "hash", " c "),
        ("comment", "inline", " c "),
        ("comment", "block", " c "),
        ("raw", " {{ r }} "),
        ("assign", n.a, ("int", 1)),
    ]
    c = []
    for r in (1, 2, 3):
        for combo in itertools.product(lits, repeat=r):
            # adjacent text statements would merge into one token: skip (not a distinct program)
            if any(x[0] == "text" and y[0] == "text" for x, y in zip(combo, combo[1:])):
                continue
            c.append(tuple(combo))
    # comment blocks that contain comment blocks (a commented-out region that itself holds a comment) whose inner end
    # tag carries its own whitespace control: only the OUTER tags' markers trim the text around the comment
    nested = [("comment", "block", " a {% comment %} b {% endcomment " + m + "%} c ") for m in ("", "-", "~", "+")]
    nested += [("comment", "block", " a {%" + m + " comment %}{% comment %} b {% endcomment %}{%" + m + " endcomment " + m + "%} c ") for m in ("-", "~")]
    nested += [("comment", "block", " a {% raw %}{% endcomment -%}{% endraw %} c "), ("comment", "block", "{%- comment -%}{%- endcomment -%}")]
    edge_texts = [None, ("text", "x "), ("text", " \n"), ("text", "\ty\r\n")]
    for x in nested:
        for pre_, post_ in itertools.product(edge_texts, repeat=2):
            c.append(tuple(st for st in (pre_, x, post_) if st is not None))
    # text around a `{#` that does not start a comment (nothing after it closes one) is still one piece of text
    a += [(("text", t_), ("out", ("var", n.g, ())), ("text", " {# z")) for t_ in ("a {# b ", " {# \n")]
    for x in (("comment", "inline", " c "), ("comment", "block", " c "), ("raw", " r "), ("assign", n.a, ("int", 1))):
        for t_ in ("a {# b ", " {# \n", "a {## b\n"):
            c.append((("text", t_), x, ("text", " z")))
            c.append((x, ("text", t_)))
    c.append((("text", " a {# b "),))
    # (D) nests whose inner block mixes blank and non-blank branches (blank-block suppression must look at all of them)
    dd = [(("text", "A\n"), st, ("text", "\nZ")) for st in grammar.mixed_blank_nests(seed, tier == "quick")]
    # (E) branches whose text is blank but which DO something (assign / capture / increment / cycle): suppressing the
    # blank text must not suppress the effect, on any branch, synchronously or asynchronously
    g, h, aa, cc = n.g, n.h, n.a, n.c
    effect_bodies = [
        (("text", " "), ("assign", aa, ("str", "set")), ("text", " \n")),
        (("text", "\t"), ("capture", aa, (("text", "cap"),)), ("text", " ")),
        (("text", " "), ("increment", cc), ("text", " ")),
    ]
    T, F = ("true",), ("false",)
    ee = []
    for body in effect_bodies:
        shapes = [
            ("if", ((F, (("text", "A"),)), (T, body)), None), ("if", ((F, (("text", "A"),)), (F, (("text", "B"),)), (T, body)), (("text", "E"),)),
            ("if", ((T, body),), (("text", "E"),)), ("if", ((F, (("text", "A"),)),), body),
            ("unless", T, (("text", "A"),), ((T, body),), None), ("unless", T, (("text", "A"),), (), body),
            ("case", ("int", 1), (((("int", 2),), (("text", "A"),)), ((("int", 1),), body)), None), ("case", ("int", 3), (((("int", 2),), (("text", "A"),)),), body),
            ("for", n.i, ("var", "nosuchlist", ()), (), (("text", "A"),), body), ("for", n.i, ("range", ("int", 1), ("int", 2)), (), body, None),
        ]
        for st in shapes:
            ee.append((("text", "x "), st, ("out", ("var", aa, ())), ("out", ("var", cc, ())), ("text", " y")))
    return {"A": a, "B": b, "C": c, "D": dd, "E": ee}


def _setup(tier: str, seed: int) -> None:
    key = (tier, seed)
    if _STATE.get("key") == key:
        return
    kmax = 4 if tier == "quick" else 5
    progs = _programs(seed, tier)
    subs = {}
    for name, plist in progs.items():
        items = [(p, marker_positions(p)) for p in plist]
        offsets, total = [], 0
        for p, k in items:
            offsets.append(total)
            total += 1  # one case per program: the whole cube is explored inside the case
        subs[name] = items
    n = grammar.Names(seed)
    ds = grammar.data_sets(n)
    srcs = grammar.loader_sources(seed)
    _STATE.update(
        kmax=kmax,
        dev=2,
        key=key,
        subs=subs,
        data=[ds[1], ds[2], ds[7]],
        envs={(t, s): impl.make_env(trim=t, suppress=s, templates=srcs) for t, s in CONFIGS},
        env_limited=impl.make_env(trim="+", suppress=False, templates=srcs, limits={"output_stream_limit": 10**7}),
        seed=seed,
    )


def plan(tier: str, seed: int):
    _setup(tier, seed)
    shards = []
    total = 0
    for name, items in _STATE["subs"].items():
        # heavy programs (k large) first so that the pool is balanced
        order = sorted(range(len(items)), key=lambda i: -items[i][1])
        for i in order:
            shards.append((tier, seed, name, i))
        total += len(items)
    shards.append((tier, seed, "shared", 0))
    total += len(shared_cases())
    meta = {
        "space_size": total,
        "subspaces": {name: {"programs": len(items), "assignments": sum(_n_assignments(k, name) for _, k in items)} for name, items in _STATE["subs"].items()},
        "bounds": {"full_cube_up_to_k": _STATE["kmax"], "deviations_beyond": _STATE["dev"], "configs": len(CONFIGS), "data_sets": 3},
    }
    return shards, meta


def _render(env: Any, src: str, d: dict[str, Any]) -> tuple[str, Any]:
    try:
        return ("ok", env.from_string(src).render(**d))
    except LiquidError as e:
        return ("liquid", type(e).__name__)


def _render_async(env: Any, src: str, d: dict[str, Any]) -> tuple[str, Any]:
    from mc.vloop import run_solo

    try:
        t = env.from_string(src)
    except LiquidError as e:
        return ("liquid", type(e).__name__)
    kind, val = run_solo(t.render_async(**d))
    if kind == "ok":
        return ("ok", val)
    return ("liquid", type(val).__name__) if isinstance(val, LiquidError) else ("foreign", type(val).__name__)


def _construct(prog: tuple) -> str:
    st = prog[1] if len(prog) == 3 and prog[0][0] == "text" and prog[2][0] == "text" else None
    if st is None:
        return "+".join(s[0] if s[0] != "comment" else "comment-" + s[1] for s in prog)
    inner = ",".join(sorted({s[0] for body in __import__("mc.lang", fromlist=["x"]).sub_bodies(st) for s in body}))
    return st[0] + ("/" + st[1] if st[0] == "comment" else "") + ("[" + inner + "]" if inner else "")


def _assignments(k: int, name: str = "A"):
    """All 4^k assignments for k <= kmax; beyond that every assignment that deviates from all-none in <= dev positions.
    (The nests of sub-space D get one deviation in the quick tier: their subject is suppression, not trimming.)"""
    kmax, dev = _STATE["kmax"], _STATE["dev"]
    if name == "D":
        dev = max(1, dev - 1)
    if k <= kmax:
        yield from itertools.product(MARKS, repeat=k)
        return
    for r in range(dev + 1):
        for pos in itertools.combinations(range(k), r):
            for vals in itertools.product(MARKS[1:], repeat=r):
                marks = [""] * k
                for p_, v in zip(pos, vals):
                    marks[p_] = v
                yield tuple(marks)


def _n_assignments(k: int, name: str = "A") -> int:
    return sum(1 for _ in _assignments(k, name))


def check_program(name: str, prog: tuple, k: int, res: ShardResult | None, only: tuple | None = None) -> list[tuple[str, Any, Any, Any]]:
    """Explore the whole marker cube for one program. Returns (sig, case-extra, expected, observed)."""
    out: list[tuple[str, Any, Any, Any]] = []
    envs = _STATE["envs"]
    literal_only = name == "C"
    data = _STATE["data"] if not literal_only else [_STATE["data"][0]]
    plain_src = print_program(prog, Layout())
    cons = _construct(prog)
    for di, d in enumerate(data):
        base = _render(envs[("+", False)], plain_src, d)
        if res is not None:
            res.evaluations += 1
        if base[0] != "ok":
            # a program that fails must fail the same way whatever the markers are
            base_key = base
        else:
            base_key = ("ok", nows(base[1]))
        if literal_only and base[0] == "ok":
            want = "".join(s[1] if s[0] in ("text", "raw") else "" for s in prog)
            if base[1] != want:
                out.append((f"C18:literal-text-not-verbatim:{cons}", {"markers": [], "trim": "+", "suppress": False}, want, base[1]))
        # the same unmarked source: rendered asynchronously under every configuration, and with an output limit that is
        # far from being reached, it gives exactly what the synchronous unlimited render gives
        for trim, sup in CONFIGS:
            s_ = _render(envs[(trim, sup)], plain_src, d)
            a_ = _render_async(envs[(trim, sup)], plain_src, d)
            if res is not None:
                res.evaluations += 2
            if s_ != a_:
                out.append((f"C18:async-render-differs:{cons}", {"markers": [], "trim": trim, "suppress": sup, "data_index": di}, {"sync": s_}, {"async": a_, "source": plain_src}))
        lim = _render(_STATE["env_limited"], plain_src, d)
        if lim != base:
            out.append((f"C18:unreached-output-limit-changes-output:{cons}", {"markers": [], "trim": "+", "suppress": False, "data_index": di}, {"unlimited": base}, {"limited": lim, "source": plain_src}))
        # a default trim mode X is, by definition, X written on every marker position that is left unmarked
        if k:
            for x in ("-", "~"):
                for sup in (True, False):
                    by_default = _render(envs[(x, sup)], plain_src, d)
                    explicit = _render(envs[("+", sup)], print_program(prog, Layout(markers=(x,) * k)), d)
                    if res is not None:
                        res.evaluations += 2
                    # (the outer edges of a template have no marker position: a default trim mode also trims the text
                    #  before the first and after the last markup, so the two are compared without their outer whitespace)
                    if by_default[0] == "ok" and explicit[0] == "ok":
                        by_default, explicit = ("ok", by_default[1].strip()), ("ok", explicit[1].strip())
                    if by_default != explicit:
                        out.append((f"C18:default-trim-differs-from-explicit-markers:{cons}", {"markers": [x] * k, "trim": x, "suppress": sup, "data_index": di}, {"explicit_markers_everywhere": explicit}, {"default_trim": by_default, "source": plain_src}))
        # locality: one marker trims only the text next to its own markup. With a single `-` anywhere but on the outer
        # edge of the first (last) markup, the literal text before (after) the construct is reproduced untouched
        if k and base[0] == "ok" and prog[0][0] == "text" and prog[-1][0] == "text" and len(prog) >= 3 and di == 0:
            P, Q = prog[0][1], prog[-1][1]
            if base[1].startswith(P) and base[1].endswith(Q):
                for i in range(k):
                    for mk in ("-", "~"):
                        marks1 = tuple(mk if j == i else "" for j in range(k))
                        o = _render(envs[("+", False)], print_program(prog, Layout(markers=marks1)), d)
                        if res is not None:
                            res.evaluations += 1
                        if o[0] != "ok":
                            continue
                        extra = {"markers": list(marks1), "trim": "+", "suppress": False, "data_index": di}
                        mid = base[1][len(P) : len(base[1]) - len(Q)]
                        if mk == "-" and k >= 2 and i in (0, k - 1):
                            want_o = (P.rstrip() + mid + Q) if i == 0 else (P + mid + Q.lstrip())
                            if o[1] != want_o:
                                out.append((f"C18:outer-marker-trims-other-than-the-adjacent-text:{'before' if i == 0 else 'after'}:{cons}", extra, {"unmarked": base[1], "expected": want_o}, {"render": o[1]}))
                        elif 0 < i < k - 1 and not (o[1].startswith(P) and o[1].endswith(Q) and len(o[1]) >= len(P) + len(Q)):
                            out.append((f"C18:inner-marker-trims-text-outside-its-construct:{cons}", extra, {"unmarked": base[1]}, {"render": o[1]}))
        for marks in _assignments(k, name):
            if only is not None and tuple(only) != marks:
                continue
            src = print_program(prog, Layout(markers=marks))
            tilde_only = all(m in ("", "~", "+") for m in marks)
            plus_only = all(m in ("", "+") for m in marks)
            for trim, sup in CONFIGS:
                o = _render(envs[(trim, sup)], src, d)
                if res is not None:
                    res.evaluations += 1
                key = o if o[0] != "ok" else ("ok", nows(o[1]))
                extra = {"markers": list(marks), "trim": trim, "suppress": sup, "data_index": di}
                if key != base_key:
                    kind = "suppression-removed-non-whitespace" if (sup and plus_only and trim == "+") else "nows-differs"
                    out.append((f"C18:{kind}:{cons}", extra, {"unmarked": base}, {"render": o, "source": src}))
                    continue
                if o[0] == "ok" and base[0] == "ok" and trim == "+" and not sup:
                    if plus_only and o[1] != base[1]:
                        out.append((f"C18:plus-marker-changes-output:{cons}", extra, base[1], o[1]))
                    elif tilde_only and nocrlf(o[1]) != nocrlf(base[1]):
                        out.append((f"C18:tilde-removed-more-than-newlines:{cons}", extra, base[1], o[1]))
                    if res is not None and not plus_only and o[1] != base[1]:
                        res.nontrivial.add(h64(src))
                if res is not None:
                    res.outcomes.add(h64([key[0], trim, sup, o[1] == base[1] if o[0] == "ok" and base[0] == "ok" else None]))
    return out


# ------------------------------------------------------------------ one caching loader shared by two environments

SHARED_PARTS = {"part": "  p {{ x }}  \n  \n  tail  ", "base": " <  {% block b %}  B  {% endblock %}  > \n", "raws": "  {% raw %}  r  {% endraw %}  \n"}
SHARED_MAINS = [
    "  head \n {% include 'part' %} \n foot ", " a {% render 'part', x: 1 %} b ", "{% extends 'base' %}{% block b %}  over {{ block.super }} {% endblock %}",
    " {% include 'raws' %} | {% render 'raws' %} ", "{% for i in (1..2) %} {% include 'part' %} {% endfor %}",
]


def shared_cases() -> list[tuple]:
    return [(first, second, main, how, mode) for first in "+-~" for second in "+-~" if first != second for main in range(len(SHARED_MAINS))
            for how in ("render-main", "get-partials") for mode in ("sync", "async")]


def check_shared(case: tuple, res: ShardResult | None) -> list[tuple[str, Any, Any, Any]]:
    """History: the environment whose default trim is `first` loads everything through the shared caching loader; then
    the environment whose default trim is `second` renders. What it renders is what it renders with a loader of its own
    (the trim mode in force is the rendering environment's, whoever loaded a template before)."""
    from liquid2 import CachingDictLoader
    from liquid2 import DictLoader

    first, second, mi, how, mode = case
    main = SHARED_MAINS[mi]
    shared = CachingDictLoader({**SHARED_PARTS, "main": main})
    e1 = impl.make_env(trim=first, loader=shared)
    e2 = impl.make_env(trim=second, loader=shared)
    own = impl.make_env(trim=second, loader=DictLoader({**SHARED_PARTS, "main": main}))
    d = {"x": "X"}

    def run(env: Any) -> tuple[str, Any]:
        try:
            if mode == "async":
                async def go() -> str:
                    t = await env.get_template_async("main")
                    return await t.render_async(**d)

                kind, val = run_solo(go())
                if kind != "ok":
                    raise val
                return ("ok", val)
            return ("ok", env.get_template("main").render(**d))
        except LiquidError as e:
            return ("liquid", type(e).__name__)

    if how == "render-main":
        run(e1)
    else:
        for nm in SHARED_PARTS:
            e1.get_template(nm)
    got, want = run(e2), run(own)
    if res is not None:
        res.evaluations += 3
        res.outcomes.add(h64([want]))
        res.nontrivial.add(h64(list(case)))
    if got != want:
        return [(f"C18:shared-loader-changes-output:{mode}", {"shared": list(case), "main": main, "partials": SHARED_PARTS}, want, got)]
    return []


def run_shard(shard) -> ShardResult:
    tier, seed, name, i = shard
    if name == "shared":
        res = ShardResult()
        for c in shared_cases():
            res.cases += 1
            for sig, extra, exp, obs in check_shared(c, res):
                res.violation(sig, {"tier": tier, "seed": seed, "space": "shared", **extra}, exp, obs)
        return res
    _setup(tier, seed)
    prog, k = _STATE["subs"][name][i]
    res = ShardResult()
    res.cases += 1
    for sig, extra, exp, obs in check_program(name, prog, k, res):
        case = {"tier": tier, "seed": seed, "space": name, "index": i, "prog": prog, **extra}
        res.violation(sig, case, exp, obs, repro=_repro(prog, extra, seed))
    if i % 9 == 0:
        res.samples.append({"source": print_program(prog, Layout(markers=("-", "~") * 3)), "positions": k})
    return res


def _repro(prog: tuple, extra: dict[str, Any], seed: int) -> str:
    src0 = print_program(prog, Layout())
    src1 = print_program(prog, Layout(markers=tuple(extra.get("markers") or ())))
    d = _STATE["data"][extra.get("data_index", 0)]
    return (
        "# stand-alone reproduction (C18): markers / trim mode / blank-block suppression change only whitespace\n"
        "from liquid2 import Environment, DictLoader, WhitespaceControl as W\n"
        f"srcs = {grammar.loader_sources(seed)!r}\n"
        f"class E(Environment):\n    suppress_blank_control_flow_blocks = {extra.get('suppress')}\n"
        "class P(Environment):\n    suppress_blank_control_flow_blocks = False\n"
        f"trim = {{'+': W.PLUS, '-': W.MINUS, '~': W.TILDE}}[{extra.get('trim')!r}]\n"
        f"a = P(loader=DictLoader(srcs)).from_string({src0!r}).render(**{d!r})\n"
        f"b = E(loader=DictLoader(srcs), default_trim=trim).from_string({src1!r}).render(**{d!r})\n"
        "nows = lambda s: ''.join(c for c in s if not c.isspace())\n"
        "print(repr(a)); print(repr(b)); assert nows(a) == nows(b)\n"
    )


def replay(case: dict[str, Any]) -> list[dict[str, Any]]:
    if case.get("space") == "shared":
        res = ShardResult()
        for sig, extra, exp, obs in check_shared(tuple(case["shared"]), None):
            res.violation(sig, {**case, **extra}, exp, obs)
        return res.violations
    _setup(case.get("tier", "quick"), case.get("seed", 0))
    prog = ps.totuple(case["prog"])
    k = marker_positions(prog)
    res = ShardResult()
    for sig, extra, exp, obs in check_program(case["space"], prog, k, None, only=tuple(case.get("markers") or ()) if case.get("markers") else None):
        res.violation(sig, {**case, **extra}, exp, obs)
    return res.violations
