"""C03 — async rendering is observationally identical to sync rendering.

(A) every program of the standard space x every data set, with plain data and with lazily awaited drops
    (__getitem_async__ yields before answering): render() vs render_async() on the virtual loop;
(B) a file tree with partials in sub-directories, an inheritance chain, macros, translate, failing
    templates x loader kinds {DictLoader, CachingDictLoader (+namespace key), FileSystemLoader,
    CachingFileSystemLoader, ChoiceLoader, CachingChoiceLoader}: get_template vs get_template_async
    (name, path, full_name, globals, matter, up-to-date) and render vs render_async of every entry;
(C) analyze() vs analyze_async() and every helper pair on every operation of the grammar;
(D) schedules (E4): all interleavings of k=2 (quick) and k=3 (thorough) concurrent render_async
    tasks drawn from a menu of task bodies; each task's result must equal its solo synchronous result.
Oracle: same output, or same error class at the same (template name, token start, token stop).
"""

from __future__ import annotations

import itertools
from typing import Any

from liquid2 import CachingChoiceLoader
from liquid2 import CachingDictLoader
from liquid2 import CachingFileSystemLoader
from liquid2 import ChoiceLoader
from liquid2 import DictLoader
from liquid2 import Environment
from liquid2 import FileSystemLoader
from liquid2.exceptions import LiquidError

from mc import grammar
from mc import impl
from mc import progspace as ps
from mc import seams
from mc.harness import ShardResult
from mc.harness import h64
from mc.vloop import VLoop
from mc.vloop import explore
from mc.vloop import run_solo

ID = "C03"
LEVEL = "model_checking"
ENGINES = ["E1 spaces", "E4 virtual event loop schedule DFS"]
RULE = (
    "(A) standard program space x data x {plain, async drops}; (B) file tree x loader kinds x entries; (C) analysis "
    "pairs; (D) all interleavings of k concurrent render_async tasks at their await points. Non-trivial: (A) the "
    "async run passed >= 1 real await point (drop access or partial load) or produced output; (D) a schedule in which "
    ">= 2 tasks actually interleaved (a switch happened before the first task finished); distinct by (source, data) "
    "or (task set, schedule)"
)
LEVEL_TEXT = (
    "Differential bounded-exhaustive exploration (sync vs async on every program x data) plus stateless exhaustive "
    "schedule exploration of small sets of concurrent renders on a virtual event loop the harness owns: every "
    "interleaving at await points is executed on the real implementation and compared with the solo synchronous result."
)
LEVEL_NOTE = (
    "Await points are those the harness supplies (async drops, loader hops, executor hop run inline); OS threads are "
    "not modelled; tasks switch only at awaits, so all interleavings of k tasks are covered without a preemption bound."
)
TECHNIQUE = "sync/async differential over an enumerated program space + exhaustive DFS over event-loop schedules of k concurrent renders (virtual asyncio loop) + exhaustive enumeration of load / file-change histories run all-sync and all-async"
ASSUMPTIONS = [
    "asyncio tasks switch only at await points",
    "run_in_executor work is modelled as one scheduling step on the virtual loop",
]

_STATE: dict[str, Any] = {}

TREE = {
    "main.html": "{% include 'sub/b.html' with 5 %}|{% render 'sub/b.html' with 6 %}|{% include 'p.html' %}",
    "sub/b.html": "[b={{ b }} g={{ g }}]",
    "sub/c.html": "{% include 'sub/b.html' with g as b %}{% render 'p.html', who: 'c' %}",
    "p.html": "{{ who }}p{{ h.a }}",
    "leaf.html": "{% extends 'mid.html' %}{% block x %}L{{ block.super }}{{ g }}{% endblock %}",
    "mid.html": "{% extends 'base.html' %}{% block x %}M{{ block.super }}{% endblock %}{% block y %}My{{ h.a }}{% endblock %}",
    "base.html": "<{% block x %}B{% endblock %}|{% block y %}By{% endblock %}|{{ arr[0] }}>",
    "macro.html": "{% macro m x, y: 2 %}({{ x }}{{ y }}{{ h.a }}){% endmacro %}{% call m 1 %}{% call m y: g %}",
    "trans.html": "{% translate n: g, count: arr.size %}One {{ n }}{% plural %}Many {{ n }} {{ count }}{% endtranslate %}",
    "loop.html": "{% render 'p.html' for arr as who %}{% for i in arr %}{% include 'p.html', who: i %}{% endfor %}",
    "err-missing.html": "a{% include 'missing.html' %}",
    "err-type.html": "b{{ 1 | divided_by: 0 }}",
    "err-nested.html": "c{% render 'err-type.html' %}",
    "err-syntax.html": "d{% if %}",
    "err-loads-syntax.html": "e{% include 'err-syntax.html' %}",
    # interrupts that reach the top of a partial: included partials pass them to the caller's loop, rendered ones do not
    "brk.html": "x{% break %}y",
    "cont.html": "x{% continue %}y",
    "loop-render-brk.html": "{% for i in arr %}{{ i }}{% render 'brk.html' %}z{% endfor %}|",
    "loop-render-cont.html": "{% for i in arr %}{{ i }}{% render 'cont.html' %}z{% endfor %}|",
    "loop-include-brk.html": "{% for i in arr %}{{ i }}{% include 'brk.html' %}z{% endfor %}|",
    "loop-include-cont.html": "{% for i in arr %}{{ i }}{% include 'cont.html' %}z{% endfor %}|",
    "render-for-brk.html": "a{% render 'brk.html' for arr as z %}b",
    "include-for-cont.html": "a{% include 'cont.html' for arr as z %}b",
    "top-render-brk.html": "a{% render 'brk.html' %}b",
    "top-include-brk.html": "a{% include 'brk.html' %}b",
    "block-brk.html": "{% for i in arr %}{% block x %}{{ i }}{% break %}{% endblock %}{% endfor %}",
    "cap.html": "{% capture c %}{% include 'p.html' %}{{ arr | join: '-' }}{% endcapture %}{{ c | upcase }}",
}
ENTRIES = sorted(TREE)


class SlowCachingDictLoader(CachingDictLoader):
    """A caching loader whose asynchronous source lookup really suspends once (a stand-in for any I/O-backed loader)."""

    async def get_source_async(self, env: Any, template_name: str, *, context: Any = None, **kwargs: Any) -> Any:
        import asyncio

        await asyncio.sleep(0)
        return self.get_source(env, template_name, context=context, **kwargs)


class SlowCheckingLoader(SlowCachingDictLoader):
    """... and whose up-to-date check is awaitable and suspends too (as a file-system or network loader's does)."""

    def get_source(self, env: Any, template_name: str, *, context: Any = None, **kwargs: Any) -> Any:
        from liquid2.loader import TemplateSource

        src = super().get_source(env, template_name, context=context, **kwargs)

        async def uptodate() -> bool:
            import asyncio

            await asyncio.sleep(0)
            return True

        return TemplateSource(src.source, src.name, uptodate, src.matter)


def _loaders(root: str) -> dict[str, Any]:
    return {
        # a cache at capacity (1 and 2 entries), warmed with the first task's entry template before the tasks start:
        # a hit that is suspended in its up-to-date check while another task's loads evict the entry
        "checking-cap1": lambda: SlowCheckingLoader(dict(TREE), capacity=1),
        "checking-cap2": lambda: SlowCheckingLoader(dict(TREE), capacity=2),
        "caching-slow": lambda: SlowCachingDictLoader(dict(TREE)),
        "dict": lambda: DictLoader(dict(TREE)),
        "caching-dict": lambda: CachingDictLoader(dict(TREE)),
        "caching-dict-ns": lambda: CachingDictLoader(dict(TREE), namespace_key="ns"),
        "fs": lambda: FileSystemLoader(root),
        "fs-ext": lambda: FileSystemLoader(root, ext=".html"),
        "caching-fs": lambda: CachingFileSystemLoader(root),
        "caching-fs-ns": lambda: CachingFileSystemLoader(root, namespace_key="ns", auto_reload=False),
        "choice": lambda: ChoiceLoader([DictLoader({"p.html": TREE["p.html"]}), FileSystemLoader(root)]),
        "caching-choice": lambda: CachingChoiceLoader([FileSystemLoader(root), DictLoader(dict(TREE))]),
    }


def _setup(tier: str, seed: int) -> None:
    key = (tier, seed)
    if _STATE.get("key") == key:
        return
    sp = ps.standard_spaces(seed, tier, pairs="l0" if tier == "quick" else "l1")
    sp.append(ps.corpus_space())
    tr = tablerow_cases()
    sp.append(ps.SubSpace("tablerow-helpers", len(tr), lambda i: tr[i]))
    cc = counting_cases()
    sp.append(ps.SubSpace("read-counting-data", len(cc), lambda i: cc[i]))
    n = grammar.Names(seed)
    srcs = grammar.loader_sources(seed)
    root = seams.sandbox("verif_c03_")
    seams.write_tree(root, TREE)
    _STATE.update(
        key=key,
        spaces={s.name: s for s in sp},
        data=grammar.data_sets(n),
        env=impl.make_env(templates=srcs),
        yields=1 if tier == "quick" else 2,
        srcs=srcs,
        root=root,
        seed=seed,
        ops=grammar.ops(seed),
    )


class CountingDrop(dict):  # type: ignore[type-arg]
    """Data whose every read is observable: `hits` counts the lookups made so far (a condition evaluated twice shows)."""

    def __init__(self) -> None:
        super().__init__(k="v")
        self.n = 0

    def __getitem__(self, key: Any) -> Any:
        self.n += 1
        if key == "hits":
            return self.n
        return super().__getitem__(key)

    def __contains__(self, key: Any) -> bool:
        return key in ("hits", "k")


def counting_cases() -> list[dict[str, Any]]:
    srcs = [
        "{% if false %}a{% elsif c.hits == 1 %}first{% elsif c.hits > 0 %}later{% else %}other{% endif %} n={{ c.hits }}",
        "{% unless true %}a{% elsif c.hits == 1 %}first{% else %}other{% endunless %} n={{ c.hits }}",
        "{% case c.hits %}{% when 1 %}one{% when 2 %}two{% else %}many{% endcase %} n={{ c.hits }}",
        "{% for i in (1..2) %}{% if c.hits > 9 %}x{% elsif c.hits < 9 %}y{% endif %}{% endfor %} n={{ c.hits }}",
        "{{ c.hits if c.hits == 1 else 'no' }} n={{ c.hits }}",
        "{% if c.hits == 1 and c.hits == 2 %}and{% endif %}{% if c.hits > 99 or c.hits > 0 %}or{% endif %} n={{ c.hits }}",
        "{% assign v = c.hits | plus: c.hits %}{{ v }} n={{ c.hits }}",
        "{% for i in (1..c.hits) limit: c.hits %}{{ i }}{% endfor %} n={{ c.hits }}",
        "{% capture z %}{{ c.hits }}{% endcapture %}{{ z }}{{ z }} n={{ c.hits }}",
        "{% cycle c.hits, c.hits %}{% cycle c.hits, c.hits %} n={{ c.hits }}",
        "{% with a: c.hits %}{{ a }}{{ a }}{% endwith %} n={{ c.hits }}",
        "{% macro m x %}{{ x }}{{ x }}{% endmacro %}{% call m c.hits %} n={{ c.hits }}",
        "{{ 'a${c.hits}b${c.hits}' }} n={{ c.hits }}",
    ]
    return [{"source": s_, "templates": {}, "data": {"c": "<counting>"}} for s_ in srcs]


def _fresh(d: dict[str, Any]) -> dict[str, Any]:
    return {k: (CountingDrop() if v == "<counting>" else v) for k, v in d.items()}


def tablerow_cases() -> list[dict[str, Any]]:
    """Every tablerow option value (cols 0 / nil / undefined / non-numeric included) x lengths, reading every helper."""
    helpers = "".join("{{ tablerowloop." + h + " }}," for h in ("row", "col", "col0", "col_first", "col_last", "index", "index0", "rindex", "rindex0", "first", "last", "length"))
    out = []
    for cols in ("", " cols: 0", " cols: 1", " cols: 2", " cols: 3", " cols: nil", " cols: nosuch", " cols: 'x'", " cols: g", " cols: -1", " cols: 1.5"):
        for opts in ("", " limit: 2", " offset: 1", " limit: 0", " limit: 3 offset: 1"):
            src = "{% tablerow i in arr" + cols + opts + " %}{{ i }}:" + helpers + "{% endtablerow %}"
            for arr in ([], [1], [1, 2], [1, 2, 3], [1, 2, 3, 4, 5], "ab", {"k": 1, "j": 2}):
                out.append({"source": src, "templates": {}, "data": {"arr": arr, "g": 2}})
    return out


def plan(tier: str, seed: int):
    _setup(tier, seed)
    sp = _STATE["spaces"]
    shards: list[Any] = [("A", tier, seed, name, lo, hi) for name, lo, hi in ps.shards_for(list(sp.values()), per=200)]
    lk = sorted(_loaders(_STATE["root"]))
    for l in lk:
        shards.append(("B", tier, seed, l))
    nops = len(_STATE["ops"])
    from mc.harness import chunks

    for lo, hi in chunks(nops, 16):
        shards.append(("C", tier, seed, lo, hi))
    menu = task_menu()
    k = 2
    combos = list(itertools.combinations_with_replacement(range(len(menu)), 2))
    if tier == "thorough":
        # three tasks: only over the loader with exactly one suspension per lookup (about 2,000 schedules per set). Three
        # tasks over the other loaders exceed 400,000 schedules per set (measured) and would only be explored up to a cap.
        combos += [c for c in itertools.combinations(range(len(menu)), 3) if all(menu[i][1] == "caching-slow" for i in c)]
    # task sets share state only through a common loader/environment: keep the sets that use one loader kind
    combos = [c for c in combos if len({menu[i][1] for i in c}) == 1]
    for c in combos:
        shards.append(("D", tier, seed, c))
    lim = limited_cases(tier)
    for lo, hi in chunks(len(lim), 8):
        shards.append(("E", tier, seed, lo, hi))
    fh = file_histories(tier)
    for fk in FH_KINDS:
        for lo, hi in chunks(len(fh), 48):
            shards.append(("F", tier, seed, fk, lo, hi))
    meta = {
        "space_size": sum(s.size for s in sp.values()) + (len(lk) + 1) * len(ENTRIES) + nops + len(combos) + len(lim) + len(fh) * len(FH_KINDS),
        "subspaces": {**{s.name: s.size for s in sp.values()}, "loader-x-entry": len(lk) * len(ENTRIES), "analysis-ops": nops, "task-sets": len(combos), "limited-programs": len(lim)},
        "bounds": {"data_sets": len(_STATE["data"]), "tasks": 2 if tier == "quick" else 3, "menu": len(menu)},
    }
    return shards, meta


# ------------------------------------------------------------------ (E) the same verdict under resource limits


def limited_cases(tier: str) -> list[tuple]:
    """(prefix, kinds, lengths): a construct that is left by break / continue (through a partial, a tablerow, a capture,
    a macro), followed by a loop nest, rendered under EVERY loop iteration limit up to the nest's bound and every output
    limit at the boundaries: the asynchronous render must give the verdict of the synchronous one."""
    from checks import c06

    kinds1 = ("F", "T", "IF", "RF", "FR", "FI", "FM", "FC")
    out: list[tuple] = []
    for p in range(len(c06.PREFIXES)):
        for k in kinds1:
            out.append((p, (k,), (3,)))
        for kk in itertools.product(kinds1 if tier != "quick" else ("F", "IF", "FR"), repeat=2):
            out.append((p, kk, (3, 3)))
    return out


def check_limited(case: tuple, res: ShardResult | None) -> list[tuple[str, Any, Any, Any]]:
    from checks import c06

    p, kinds, lengths = case
    out: list[tuple[str, Any, Any, Any]] = []
    main, templates, data, bad = c06.build_nest(tuple(kinds), tuple(lengths))
    if bad:
        return out
    psrc, ptemplates, pbound = c06.PREFIXES[p]
    main = psrc + "/" + main
    templates = {**templates, **ptemplates}
    data = {**data, "its": [1, 2, 3]}
    B = max(c06.product_bound(tuple(lengths)), pbound)
    seen: set[str] = set()
    for key, values in (("loop_iteration_limit", range(1, B + 3)), ("output_stream_limit", (0, 1, 5, 20, 10**6)), ("local_namespace_limit", (1, 50, 200, 10**6))):
        for L in values:
            s_ = c06._limited(templates, {key: L}, main, data, "sync")
            a_ = c06._limited(templates, {key: L}, main, data, "async")
            if res is not None:
                res.evaluations += 2
                res.outcomes.add(h64(list(s_)[:1] + [key]))
                if s_[0] != "ok":
                    res.nontrivial.add(h64([p, kinds, key, L]))
            if s_ != a_ and key not in seen:
                seen.add(key)
                out.append((f"C03:sync-async-differ-under-{key}:after-prefix-{p}", {"prefix": p, "kinds": list(kinds), "lengths": list(lengths), "limit": L, "source": main}, {"sync": list(s_)}, {"async": list(a_)}))
    return out


# ------------------------------------------------------------------ outcome with location


def _loc(e: LiquidError) -> tuple:
    t = e.token
    return (type(e).__name__, e.template_name, getattr(t, "start", None), getattr(t, "stop", None))


def sync_outcome(fn, *a, **kw) -> tuple:
    try:
        return ("ok", fn(*a, **kw))
    except LiquidError as e:
        return ("liquid",) + _loc(e)
    except Exception as e:  # noqa: BLE001
        return ("foreign", type(e).__name__, str(e)[:80])


def async_outcome(coro) -> tuple:
    kind, val = run_solo(coro)
    return _classify(kind, val)


def _classify(kind: str, val: Any) -> tuple:
    if kind == "ok":
        return ("ok", val)
    if kind == "cancelled":
        return ("cancelled",)
    if isinstance(val, LiquidError):
        return ("liquid",) + _loc(val)
    return ("foreign", type(val).__name__, str(val)[:80])


# ------------------------------------------------------------------ (A)


def check_prog_case(case: dict[str, Any], res: ShardResult | None) -> list[tuple[str, Any, Any]]:
    out: list[tuple[str, Any, Any]] = []
    src = ps.case_source(case)
    if "templates" in case:
        env = impl.make_env(templates=case["templates"], shopify=True)
        datas = [case.get("data") or {}]
    else:
        env = _STATE["env"]
        datas = _STATE["data"]
    try:
        t = env.from_string(src, name="main")
    except LiquidError:
        if res is not None:
            res.count("source_does_not_parse")
        return out
    for d in datas:
        for mode in ("plain", "drops"):
            dd = _fresh(d) if mode == "plain" else seams.wrap_data(_fresh(d))
            s = sync_outcome(t.render, **dd)
            dd = _fresh(d) if mode == "plain" else seams.wrap_data(_fresh(d))
            loop = VLoop()
            kind, val = loop.run_all([t.render_async(**dd)])[0]
            a = _classify(kind, val)
            if res is not None:
                res.evaluations += 2
                res.outcomes.add(h64([s[0], mode]))
                if loop.steps > 1 or (s[0] == "ok" and s[1]):
                    res.nontrivial.add(h64([src, repr(d), mode]))
            if s != a:
                out.append(
                    (
                        f"C03:render-sync-async-differ:{_kind(s, a)}:{_construct(src)}",
                        {"sync": s, "data": repr(d), "mode": mode},
                        {"async": a},
                    )
                )
                break
    return out


def _kind(s: tuple, a: tuple) -> str:
    if s[0] == a[0] == "ok":
        return "output"
    if s[0] == a[0] == "liquid":
        return "error-class" if s[1] != a[1] else "error-location"
    return f"{s[0]}-vs-{a[0]}"


def _construct(src: str) -> str:
    import re

    tags = sorted(set(re.findall(r"\{%-?\s*([a-z]+)", src)))
    return ",".join(t for t in tags if not t.startswith("end") and t not in ("else", "elsif", "when"))[:80]


# ------------------------------------------------------------------ (B)


def _tmpl_attrs(t: Any) -> dict[str, Any]:
    return {
        "name": t.name,
        "path": str(t.path),
        "full_name": t.full_name(),
        "globals": dict(t.global_data),
        "matter": dict(t.overlay_data),
    }


def check_loader(lname: str, res: ShardResult | None, only: str | None = None) -> list[tuple[str, Any, Any, Any]]:
    out: list[tuple[str, Any, Any, Any]] = []
    mk = _loaders(_STATE["root"])[lname]
    d = _STATE["data"][4]
    g = {"who": "W", "ns": "n1"}
    for entry in ENTRIES:
        if only is not None and entry != only:
            continue
        names = [entry] + ([entry[:-5]] if lname == "fs-ext" else [])
        for name in names:
            env_s = Environment(loader=mk())
            env_a = Environment(loader=mk())
            s = sync_outcome(env_s.get_template, name, globals=g)
            kind, val = run_solo(env_a.get_template_async(name, globals=g))
            a = _classify(kind, val)
            if res is not None:
                res.evaluations += 2
                res.cases += 1
            case = {"loader": lname, "entry": name}
            if s[0] != a[0] or (s[0] != "ok" and s != a):
                out.append((f"C03:get_template-sync-async-differ:{_kind(s, a)}", case, {"sync": _show(s)}, {"async": _show(a)}))
                continue
            if s[0] != "ok":
                continue
            ts, ta = s[1], a[1]
            sa, aa = _tmpl_attrs(ts), _tmpl_attrs(ta)
            for k in sa:
                if sa[k] != aa[k]:
                    out.append((f"C03:get_template-attribute-differs:{k}", case, {"sync": sa[k]}, {"async": aa[k]}))
            up_s = sync_outcome(ts.is_up_to_date)
            up_a = async_outcome(ta.is_up_to_date_async())
            # (an awaitable up-to-date callable can only be answered asynchronously: the synchronous check says "reload")
            if up_s != up_a and not case["loader"].startswith("checking-"):
                out.append(("C03:is_up_to_date-differs", case, {"sync": up_s}, {"async": up_a}))
            for mode in ("plain", "drops"):
                dd = d if mode == "plain" else seams.wrap_data(d)
                rs = sync_outcome(ts.render, **dd)
                ra = async_outcome(ta.render_async(**dd))
                if res is not None:
                    res.evaluations += 2
                    res.outcomes.add(h64([rs[0], lname]))
                    res.nontrivial.add(h64([lname, name, mode]))
                if rs != ra:
                    out.append((f"C03:loader-render-sync-async-differ:{_kind(rs, ra)}", {**case, "mode": mode}, {"sync": rs}, {"async": ra}))
                    break
            # a second round on the same environments (cache hits)
            s2 = sync_outcome(lambda: env_s.get_template(name, globals=g).render(**d))
            a2 = async_outcome(_get_and_render(env_a, name, g, d))
            if s2 != a2:
                out.append((f"C03:second-load-render-sync-async-differ:{_kind(s2, a2)}", case, {"sync": s2}, {"async": a2}))
    return out


async def _get_and_render(env: Any, name: str, g: dict[str, Any], d: dict[str, Any]) -> str:
    t = await env.get_template_async(name, globals=g)
    return await t.render_async(**d)


def _show(o: tuple) -> Any:
    return o if o[0] != "ok" else ("ok", "<Template>")


# ------------------------------------------------------------------ (C)

HELPERS = [
    "variables", "variable_paths", "variable_segments", "global_variables", "global_variable_paths",
    "global_variable_segments", "filter_names", "tag_names",
]  # fmt: skip


def _norm_analysis(a: Any) -> Any:
    def spans(m: Any) -> Any:
        return sorted((str(k), sorted((getattr(s, "template_name", None), getattr(s, "start", None), getattr(s, "end", None)) for s in v)) for k, v in m.items())

    def vars_(m: Any) -> Any:
        return sorted((str(k), sorted((str(v), v.span.template_name, v.span.start, v.span.end) for v in vs)) for k, vs in m.items())

    return {
        "variables": vars_(a.variables),
        "globals": vars_(a.globals),
        "locals": vars_(a.locals),
        "filters": spans(a.filters),
        "tags": spans(a.tags),
    }


def check_analysis(i: int, res: ShardResult | None) -> list[tuple[str, Any, Any, Any]]:
    out: list[tuple[str, Any, Any, Any]] = []
    st = _STATE["ops"][i]
    from mc.lang import print_program

    src = print_program((st,))
    env = _STATE["env"]
    try:
        t = env.from_string(src, name="main")
    except LiquidError:
        return out
    for partials in (True, False):
        s = sync_outcome(lambda: _norm_analysis(t.analyze(include_partials=partials)))
        a = async_outcome(_an(t, partials))
        if res is not None:
            res.evaluations += 2
            res.nontrivial.add(h64([src, partials]))
            res.outcomes.add(h64(repr(s)[:200]))
        if s != a:
            out.append((f"C03:analyze-sync-async-differ:{_kind(s, a)}", {"source": src, "include_partials": partials}, {"sync": s}, {"async": a}))
        for hname in HELPERS:
            hs = sync_outcome(lambda: sorted(map(repr, getattr(t, hname)(include_partials=partials))))
            ha = async_outcome(_helper(t, hname + "_async", partials))
            if res is not None:
                res.evaluations += 2
            if hs != ha:
                out.append((f"C03:helper-sync-async-differ:{hname}", {"source": src, "include_partials": partials}, {"sync": hs}, {"async": ha}))
    return out


async def _an(t: Any, partials: bool) -> Any:
    return _norm_analysis(await t.analyze_async(include_partials=partials))


async def _helper(t: Any, name: str, partials: bool) -> Any:
    return sorted(map(repr, await getattr(t, name)(include_partials=partials)))


# ------------------------------------------------------------------ (D) schedules


def task_menu() -> list[tuple[str, str, dict[str, Any]]]:
    """(entry template, loader kind, data) — each body has a handful of await points."""
    return [
        ("p.html", "caching-dict", {"who": "A", "h": {"a": 1}}),
        ("p.html", "caching-dict", {"who": "B", "h": {"a": 2}}),
        ("loop.html", "caching-dict", {"arr": ["x", "y"], "h": {"a": 3}}),
        ("leaf.html", "caching-dict", {"g": "G", "h": {"a": 4}, "arr": [7]}),
        ("macro.html", "caching-dict", {"g": 5, "h": {"a": 6}}),
        ("cap.html", "caching-dict", {"who": "C", "arr": [1, 2], "h": {"a": 7}}),
        ("sub/c.html", "caching-dict", {"g": 8, "h": {"a": 9}}),
        ("trans.html", "caching-dict", {"g": "T", "arr": [1, 2]}),
        # a loader whose source lookup really suspends, and per-call globals: the same name requested concurrently
        # with different globals must give each caller its own binding
        ("p.html", "caching-fs", {"who": "F"}, {"h": {"a": "g1"}}),
        ("p.html", "caching-fs", {"who": "G"}, {"h": {"a": "g2"}}),
        ("p.html", "caching-slow", {"who": "F"}, {"h": {"a": "g1"}}),
        ("p.html", "caching-slow", {"who": "G"}, {"h": {"a": "g2"}}),
        ("cap.html", "caching-slow", {"arr": ["x"]}, {"h": {"a": "g3"}, "who": "H"}),
        ("leaf.html", "caching-slow", {"arr": [7]}, {"h": {"a": "g4"}, "g": "G"}),
        ("p.html", "checking-cap1", {"who": "F", "h": {"a": 1}}),
        ("sub/c.html", "checking-cap1", {"g": 8, "h": {"a": 9}}),
        ("cap.html", "checking-cap1", {"who": "C", "arr": [1], "h": {"a": 7}}),
        ("p.html", "checking-cap2", {"who": "F", "h": {"a": 1}}),
        ("sub/c.html", "checking-cap2", {"g": 8, "h": {"a": 9}}),
        ("cap.html", "checking-cap2", {"who": "C", "arr": [1], "h": {"a": 7}}),
    ]


def _menu_job(i: int) -> tuple[str, str, dict[str, Any], dict[str, Any] | None]:
    m = task_menu()[i]
    return (m[0], m[1], m[2], m[3] if len(m) > 3 else None)  # type: ignore[misc]


def _shared_envs(jobs: list[tuple]) -> dict[str, Any]:
    """One shared environment + caching loader per loader kind used by the task set."""
    mk = _loaders(_STATE["root"])
    envs = {l: Environment(loader=mk[l]()) for l in {j[1] for j in jobs}}
    for l, env in envs.items():
        if l.startswith("checking-"):
            for entry in [j[0] for j in jobs if j[1] == l][: env.loader.cache.capacity]:
                env.get_template(entry)  # warm: the cache is full before the first task runs
    return envs


def check_schedules(combo: tuple[int, ...], res: ShardResult | None, max_runs: int) -> list[tuple[str, Any, Any, Any]]:
    out: list[tuple[str, Any, Any, Any]] = []
    menu = task_menu()
    jobs = [_menu_job(i) for i in combo]
    # solo synchronous expectations (fresh environment each)
    expected = []
    for entry, lname, d, g in jobs:
        env = Environment(loader=DictLoader(dict(TREE)))
        expected.append(sync_outcome(lambda: env.get_template(entry, globals=g).render(**seams.wrap_data(d))))
    seen_bad: set[str] = set()

    def run(loop: VLoop) -> Any:
        envs = _shared_envs(jobs)
        coros = [_job(envs[l], entry, d, g) for entry, l, d, g in jobs]
        return loop.run_all(coros)

    def on_run(loop: VLoop, result: Any) -> None:
        got = [_classify(k, v) for k, v in result]
        if res is not None:
            res.transitions += loop.steps
            res.evaluations += 1
            res.states.add(h64([combo, loop.choices]))
            if any(c != 0 for c in loop.choices):
                res.nontrivial.add(h64([combo, loop.choices]))
            res.outcomes.add(h64(repr(got)))
        for i, (e, g) in enumerate(zip(expected, got)):
            if e != g:
                sig = f"C03:concurrent-render-differs-from-solo:{jobs[i][0]}:{_kind(e, g)}"
                if sig not in seen_bad:
                    seen_bad.add(sig)
                    out.append((sig, {"tasks": list(combo), "schedule": list(loop.choices), "task": i}, {"solo_sync": e}, {"concurrent": g}))

    stats = explore(run, max_runs=max_runs, on_run=on_run)
    if res is not None:
        res.count("schedules", stats["schedules"])
        if stats["capped"]:
            res.capped = True
    return out


async def _job(env: Any, entry: str, d: dict[str, Any], g: dict[str, Any] | None = None) -> str:
    import asyncio

    t = await env.get_template_async(entry, globals=g)
    await asyncio.sleep(0)  # an await point between loading and rendering
    return await t.render_async(**seams.wrap_data(d, yields=_STATE.get("yields", 1)))


def replay_schedule(combo: tuple[int, ...], schedule: list[int]) -> list[tuple]:
    jobs = [_menu_job(i) for i in combo]
    loop = VLoop(schedule)
    envs = _shared_envs(jobs)
    return [_classify(k, v) for k, v in loop.run_all([_job(envs[l], e, d, g) for e, l, d, g in jobs])]


# ------------------------------------------------------------------ (F) the same history, all-sync and all-async

FH_OPS = ("load", "load-include", "shadow", "unshadow", "touch", "delete")
FH_KINDS = ("caching-fs2", "caching-fs2-ext", "caching-choice2", "fs2")


def file_histories(tier: str) -> list[tuple[str, ...]]:
    depth = 4 if tier == "quick" else 5
    out: list[tuple[str, ...]] = []
    for n_ in range(2, depth + 1):
        out += [h for h in itertools.product(FH_OPS, repeat=n_) if h[-1].startswith("load") and any(not o.startswith("load") for o in h)]
    return out


def check_file_history(lkind: str, hist: tuple[str, ...], res: ShardResult | None) -> list[tuple[str, Any, Any, Any]]:
    """The same history of loads and file changes (a file of the same name appears in / disappears from the EARLIER of
    two search directories, the original is rewritten or deleted) on two fresh loaders: every load synchronous on one,
    asynchronous on the other. Step by step the answers are the same."""
    import os
    import shutil
    import time as _time

    from liquid2 import Environment
    from liquid2 import FileSystemLoader
    from liquid2.exceptions import LiquidError

    from mc import seams

    answers: dict[str, list[Any]] = {}
    for mode in ("sync", "async"):
        base = seams.sandbox("verif_c03h_")
        try:
            p1, p2 = os.path.join(base, "p1"), os.path.join(base, "p2")
            fn = "n" if lkind.endswith("-ext") else "n.html"
            seams.write_tree(base, {"p2/n.html": "second v1", "p1/keep.html": "k", "p2/main.html": "[{% include '" + fn + "' %}]"})
            if lkind.startswith("caching-fs2"):
                loader: Any = CachingFileSystemLoader([p1, p2], auto_reload=True, **({"ext": ".html"} if lkind.endswith("-ext") else {}))
            elif lkind == "fs2":
                loader = FileSystemLoader([p1, p2])
            else:
                loader = CachingChoiceLoader([FileSystemLoader(p1), FileSystemLoader(p2)], auto_reload=True)
            env = Environment(loader=loader)
            ver, got = 1, []
            for op in hist:
                if op.startswith("load"):
                    name = fn if op == "load" else "main.html"
                    try:
                        if mode == "sync":
                            got.append(("ok", env.get_template(name).render()))
                        else:
                            async def go(name: str = name) -> str:
                                t_ = await env.get_template_async(name)
                                return await t_.render_async()

                            k_, v_ = run_solo(go())
                            if k_ != "ok":
                                raise v_
                            got.append(("ok", v_))
                    except LiquidError as e:
                        got.append(("liquid", type(e).__name__))
                    except Exception as e:  # noqa: BLE001
                        got.append(("foreign", type(e).__name__))
                elif op == "shadow":
                    seams.write_tree(base, {"p1/n.html": "first"})
                elif op == "unshadow":
                    if os.path.exists(os.path.join(p1, "n.html")):
                        os.unlink(os.path.join(p1, "n.html"))
                elif op == "delete":
                    if os.path.exists(os.path.join(p2, "n.html")):
                        os.unlink(os.path.join(p2, "n.html"))
                else:
                    ver += 1
                    seams.write_tree(base, {"p2/n.html": f"second v{ver}"})
                    t_ = _time.time() + ver * 10
                    os.utime(os.path.join(p2, "n.html"), (t_, t_))
            answers[mode] = got
        finally:
            shutil.rmtree(base, ignore_errors=True)
    if res is not None:
        res.evaluations += 2 * sum(1 for o in hist if o.startswith("load"))
        res.outcomes.add(h64(answers["sync"]))
        res.nontrivial.add(h64([lkind, list(hist)]))
    if answers["sync"] != answers["async"]:
        return [("C03:file-history-sync-async-differ", {"loader": lkind, "file_history": list(hist)}, {"sync": answers["sync"]}, {"async": answers["async"]})]
    return []


# ------------------------------------------------------------------ shards


def run_shard(shard) -> ShardResult:
    res = ShardResult()
    kind, tier, seed = shard[0], shard[1], shard[2]
    _setup(tier, seed)
    if kind == "A":
        _, _, _, name, lo, hi = shard
        sp = _STATE["spaces"][name]
        for i in range(lo, hi):
            case = sp.at(i)
            res.cases += 1
            for sig, exp, obs in check_prog_case(case, res):
                c = {"part": "A", "tier": tier, "seed": seed, "space": name, "index": i, **{k: v for k, v in case.items()}, "source": ps.case_source(case)}
                res.violation(sig, c, exp, obs)
            if len(res.samples) < 1 and i % 13 == 0:
                res.samples.append({"part": "A", "source": ps.case_source(case)})
    elif kind == "B":
        for sig, case, exp, obs in check_loader(shard[3], res):
            res.violation(sig, {"part": "B", "tier": tier, "seed": seed, **case}, exp, obs)
        res.samples.append({"part": "B", "loader": shard[3], "entries": ENTRIES[:4]})
    elif kind == "C":
        for i in range(shard[3], shard[4]):
            res.cases += 1
            for sig, case, exp, obs in check_analysis(i, res):
                res.violation(sig, {"part": "C", "tier": tier, "seed": seed, "op": i, **case}, exp, obs)
    elif kind == "F":
        for hist in file_histories(tier)[shard[4] : shard[5]]:
            res.cases += 1
            for sig, case, exp, obs in check_file_history(shard[3], hist, res):
                res.violation(sig, {"part": "F", "tier": tier, "seed": seed, **case}, exp, obs)
    elif kind == "E":
        for c in limited_cases(tier)[shard[3] : shard[4]]:
            res.cases += 1
            for sig, case, exp, obs in check_limited(c, res):
                res.violation(sig, {"part": "E", "tier": tier, "seed": seed, **case}, exp, obs)
    else:
        combo = shard[3]
        res.cases += 1
        for sig, case, exp, obs in check_schedules(combo, res, 400000 if tier == "thorough" else 60000):
            res.violation(sig, {"part": "D", "tier": tier, "seed": seed, **case}, exp, obs)
        res.samples.append({"part": "D", "tasks": [task_menu()[i][0] for i in combo]})
    return res


def replay(case: dict[str, Any]) -> list[dict[str, Any]]:
    _setup(case.get("tier", "quick"), case.get("seed", 0))
    res = ShardResult()
    part = case["part"]
    if part == "A":
        c = dict(case)
        if "prog" in c:
            c["prog"] = ps.totuple(c["prog"])
            c.pop("source", None)
        for sig, exp, obs in check_prog_case(c, None):
            res.violation(sig, case, exp, obs)
    elif part == "F":
        for sig, c, exp, obs in check_file_history(case["loader"], tuple(case["file_history"]), None):
            res.violation(sig, case, exp, obs)
    elif part == "E":
        for sig, c, exp, obs in check_limited((case["prefix"], tuple(case["kinds"]), tuple(case["lengths"])), None):
            res.violation(sig, case, exp, obs)
    elif part == "B":
        for sig, c, exp, obs in check_loader(case["loader"], None, only=None):
            if c["entry"] == case["entry"]:
                res.violation(sig, case, exp, obs)
    elif part == "C":
        for sig, c, exp, obs in check_analysis(case["op"], None):
            res.violation(sig, case, exp, obs)
    else:
        combo = tuple(case["tasks"])
        menu = task_menu()
        got = replay_schedule(combo, case["schedule"])
        again = replay_schedule(combo, case["schedule"])
        assert got == again, "schedule replay is not deterministic"
        i = case["task"]
        entry, _l, d, g = _menu_job(combo[i])
        env = Environment(loader=DictLoader(dict(TREE)))
        e = sync_outcome(lambda: env.get_template(entry, globals=g).render(**seams.wrap_data(d)))
        if e != got[i]:
            res.violation(f"C03:concurrent-render-differs-from-solo:{entry}:{_kind(e, got[i])}", case, {"solo_sync": e}, {"concurrent": got[i]})
    return res.violations
