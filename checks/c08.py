"""C08 — template inheritance resolves every block to its most-derived override.

Enumerated: every chain of depth 1..D over block names, where each template independently gives each name one of
{absent, plain, block.super before / after its text, required, nested inside the previous name's block} and may
add text outside blocks; error configurations (required not overridden at every depth, duplicate block names flat
and nested, two extends, mismatched endblock name, every cyclic extends graph on <= 4 templates, missing parent).
Entry points: get_template(leaf).render, the same async (virtual loop), through {% include %}, through {% render %},
with caching and non-caching loaders, twice in a row on the same environment.
Oracle: a small functional resolver (most-derived definition per name, block.super = next less-derived, nested
blocks resolved recursively, child text outside blocks dropped); errors => TemplateInheritanceError
(RequiredBlockError for required) within a CPU budget, never a hang or a page.
"""

from __future__ import annotations

import itertools
from typing import Any

from liquid2 import CachingDictLoader
from liquid2 import DictLoader
from liquid2 import Environment
from liquid2.exceptions import LiquidError
from liquid2.exceptions import RequiredBlockError
from liquid2.exceptions import TemplateInheritanceError

from mc.harness import ShardResult
from mc.harness import TimeBudget
from mc.harness import chunks
from mc.harness import cpu_budget
from mc.harness import h64
from mc.vloop import run_solo

ID = "C08"
LEVEL = "model_checking"
ENGINES = ["E1 spaces", "functional reference model"]
RULE = (
    "all chains of depth<=D over the block names with 6 modes per (template, name) and optional outside text, x 6 entry "
    "points; plus all enumerated error configurations. Non-trivial: at least one block is defined in >= 2 templates of "
    "the chain (an override really happens) or an error configuration; distinct by the chain's sources"
)
LEVEL_TEXT = (
    "Bounded-exhaustive exploration of inheritance chains on the real implementation against a 40-line functional "
    "resolver; every model trace (chain) is executed on the implementation through six entry points "
    "(traces_validated_against_impl). The property is a statement about a small combinatorial structure (a chain of block "
    "definitions), which small-scope enumeration covers completely up to the bound."
)
LEVEL_NOTE = (
    "Depth <= 4, <= 3 names, one nesting pattern (name inside the previous name); block bodies are literal text; a required "
    "block that is never reached by rendering carries no expectation (the statement does not say when it is detected)."
)
TECHNIQUE = "bounded-exhaustive enumeration of inheritance chains and error configurations against a functional block-resolution model, through sync/async/include/render entry points"
ASSUMPTIONS = ["block bodies are literal text plus block.super and nested blocks"]

MODES = ("absent", "plain", "super-before", "super-after", "required", "nested")
NAMES_ALL = ("x", "y", "z")


# ------------------------------------------------------------------ chain -> sources


def template_source(k: int, n_templates: int, defs: tuple[str, ...], names: tuple[str, ...], outer: bool, prefix: str = "t") -> str:
    """Source of template k (0 = leaf) of a chain of n templates."""
    parts = []
    if k < n_templates - 1:
        parts.append("{% extends '" + prefix + str(k + 1) + "' %}")
    if outer:
        parts.append(f"<out{k}>")

    def block_src(i: int) -> str:
        name, mode = names[i], defs[i]
        body = f"[{k}.{name}]"
        if mode == "super-before":
            body = "{{ block.super }}" + body
        elif mode == "super-after":
            body = body + "{{ block.super }}"
        # children nested in this block
        j = i + 1
        if j < len(names) and defs[j] == "nested":
            body += block_src_nested(j)
        req = " required" if mode == "required" else ""
        return "{% block " + name + req + " %}" + body + "{% endblock %}"

    def block_src_nested(i: int) -> str:
        name = names[i]
        body = f"[{k}.{name}]"
        j = i + 1
        if j < len(names) and defs[j] == "nested":
            body += block_src_nested(j)
        return "{% block " + name + " %}" + body + "{% endblock " + name + " %}"

    for i, name in enumerate(names):
        if defs[i] in ("absent", "nested"):
            continue
        parts.append(block_src(i))
        parts.append("|")
    if outer:
        parts.append(f"</out{k}>")
    return "".join(parts)


def valid_defs(names: tuple[str, ...]) -> list[tuple[str, ...]]:
    out = []
    for combo in itertools.product(MODES, repeat=len(names)):
        ok = True
        for i, m in enumerate(combo):
            if m == "nested" and (i == 0 or combo[i - 1] == "absent"):
                ok = False
        if ok:
            out.append(combo)
    return out


# ------------------------------------------------------------------ functional model


class Required(Exception):
    pass


def model_render(chain: list[tuple[tuple[str, ...], bool]], names: tuple[str, ...], base_index: int = 0) -> tuple[str, Any]:
    """chain[k] = (defs, outer) for template k (0 = leaf). Returns ('ok', text) | ('required', name).
    `base_index` is added to k in the text labels (used to render the tail of a longer chain on its own)."""
    n = len(chain)
    B = base_index
    stacks: dict[str, list[int]] = {nm: [k for k in range(n) if chain[k][0][i] != "absent"] for i, nm in enumerate(names)}

    def body(k: int, i: int, level: int) -> str:
        """Body of the definition of names[i] in template k; `level` = its index in the stack of that name."""
        defs = chain[k][0]
        name, mode = names[i], defs[i]
        text = f"[{k + B}.{name}]"
        sup = ""
        if mode in ("super-before", "super-after"):
            st = stacks[name]
            if level + 1 < len(st):
                k2 = st[level + 1]
                sup = body(k2, i, level + 1)
        if mode == "super-before":
            text = sup + text
        elif mode == "super-after":
            text = text + sup
        j = i + 1
        if j < len(names) and defs[j] == "nested":
            text += ref(j)
        return text

    def ref(i: int) -> str:
        """A {% block names[i] %} tag encountered while rendering: most-derived definition wins."""
        name = names[i]
        st = stacks[name]
        k0 = st[0]
        if chain[k0][0][i] == "required":
            raise Required(name)
        return body(k0, i, 0)

    root_defs, root_outer = chain[n - 1]
    out = []
    if root_outer:
        out.append(f"<out{n - 1 + B}>")
    try:
        for i, _name in enumerate(names):
            if root_defs[i] in ("absent", "nested"):
                continue
            out.append(ref(i))
            out.append("|")
    except Required as e:
        return ("required", str(e))
    if root_outer:
        out.append(f"</out{n - 1 + B}>")
    return ("ok", "".join(out))


# ------------------------------------------------------------------ running the implementation

ENTRIES = ("sync", "async", "include", "render", "caching-twice", "caching-async-twice", "include-then-text", "render-then-text-async",
           "include-in-loop", "include-twice-then-root", "include-twice-then-root-async")

# entries that wrap the chain in a host template: (host source with @ = leaf name, # = root name, how to build the expectation)
HOSTS = {
    "include-then-text": "<{% include '@' %}>AFTER",
    "render-then-text-async": "<{% render '@' %}>AFTER",
    "include-in-loop": "{% for i in (1..2) %}{% include '@' %};{% endfor %}END",
    "include-twice-then-root": "{% include '@' %}|{% include '@' %}|{% include '#' %}",
    "include-twice-then-root-async": "{% include '@' %}|{% include '@' %}|{% include '#' %}",
}


def host_expectation(entry: str, want: str, root_alone: str) -> str:
    if entry in ("include-then-text", "render-then-text-async"):
        return "<" + want + ">AFTER"
    if entry == "include-in-loop":
        return (want + ";") * 2 + "END"
    return want + "|" + want + "|" + root_alone


def impl_render(sources: dict[str, str], entry: str, leaf: str = "t0", root: str = "t0") -> tuple[str, Any]:
    try:
        with cpu_budget(10.0):
            if entry in HOSTS:
                env = Environment(loader=DictLoader(sources))
                host = env.from_string(HOSTS[entry].replace("@", leaf).replace("#", root))
                if entry.endswith("async"):
                    return _async(host.render_async())
                return ("ok", host.render())
            if entry == "sync":
                env = Environment(loader=DictLoader(sources))
                return ("ok", env.get_template("t0").render())
            if entry == "async":
                env = Environment(loader=DictLoader(sources))
                return _async(_get_render(env))
            if entry == "include":
                env = Environment(loader=DictLoader(sources))
                return ("ok", env.from_string("{% include 't0' %}").render())
            if entry == "render":
                env = Environment(loader=DictLoader(sources))
                return ("ok", env.from_string("{% render 't0' %}").render())
            if entry == "caching-twice":
                env = Environment(loader=CachingDictLoader(sources))
                first = _safe(lambda: env.get_template("t0").render())
                second = _safe(lambda: env.get_template("t0").render())
                if first != second:
                    return ("differs-on-second-render", [first, second])
                return first
            env = Environment(loader=CachingDictLoader(sources))
            first = _async(_get_render(env))
            second = _async(_get_render(env))
            if first != second:
                return ("differs-on-second-render", [first, second])
            return first
    except TimeBudget:
        return ("timeout", None)
    except RequiredBlockError:
        return ("required", None)
    except TemplateInheritanceError as e:
        return ("inheritance-error", str(e.message)[:60])
    except LiquidError as e:
        return ("liquid", type(e).__name__)
    except RecursionError:
        return ("foreign", "RecursionError")
    except Exception as e:  # noqa: BLE001
        return ("foreign", type(e).__name__)


def _safe(fn) -> tuple[str, Any]:
    try:
        return ("ok", fn())
    except RequiredBlockError:
        return ("required", None)
    except TemplateInheritanceError as e:
        return ("inheritance-error", str(e.message)[:60])
    except LiquidError as e:
        return ("liquid", type(e).__name__)


async def _get_render(env: Any) -> str:
    t = await env.get_template_async("t0")
    return await t.render_async()


def _async(coro: Any) -> tuple[str, Any]:
    kind, val = run_solo(coro)
    if kind == "ok":
        return ("ok", val)
    if isinstance(val, RequiredBlockError):
        return ("required", None)
    if isinstance(val, TemplateInheritanceError):
        return ("inheritance-error", str(val.message)[:60])
    if isinstance(val, LiquidError):
        return ("liquid", type(val).__name__)
    if isinstance(val, TimeBudget):
        return ("timeout", None)
    return ("foreign", type(val).__name__)


# ------------------------------------------------------------------ chain space


def chain_space(tier: str) -> list[tuple[int, tuple[str, ...], bool]]:
    """(depth, names, vary-outside-text) configurations."""
    if tier == "quick":
        return [(1, NAMES_ALL[:2], True), (2, NAMES_ALL[:2], True), (3, NAMES_ALL[:2], False), (4, NAMES_ALL[:1], True), (2, NAMES_ALL, False)]
    return [(1, NAMES_ALL, True), (2, NAMES_ALL, True), (3, NAMES_ALL[:2], True), (3, NAMES_ALL, False), (4, NAMES_ALL[:2], False)]


def chains_of(depth: int, names: tuple[str, ...], vary_outer: bool = True):
    per_template = [(d, o) for d in valid_defs(names) for o in ((False, True) if vary_outer else (True,))]
    return per_template, len(per_template) ** depth


def chain_at(per_template: list, depth: int, idx: int) -> list:
    m = len(per_template)
    chain = []
    for _ in range(depth):
        idx, r = divmod(idx, m)
        chain.append(per_template[r])
    return chain


def check_chain(chain: list, names: tuple[str, ...], res: ShardResult | None, entries: tuple[str, ...] = ENTRIES) -> list[tuple[str, Any, Any, Any]]:
    out: list[tuple[str, Any, Any, Any]] = []
    n = len(chain)
    sources = {f"t{k}": template_source(k, n, chain[k][0], names, chain[k][1]) for k in range(n)}
    want = model_render(chain, names)
    root_alone = model_render(chain[-1:], names, base_index=n - 1)
    for entry in entries:
        got = impl_render(dict(sources), entry, "t0", f"t{n - 1}")
        if res is not None:
            res.evaluations += 1
            res.traces_validated += 1
            res.outcomes.add(h64([got[0], entry]))
        if entry in HOSTS:
            uses_root = "then-root" in entry
            if want[0] == "ok" and (root_alone[0] == "ok" or not uses_root):
                expect = host_expectation(entry, want[1], root_alone[1] if uses_root else "")
                if got != ("ok", expect):
                    out.append((f"C08:wrong-page:{entry}" if got[0] == "ok" else f"C08:ok-vs-{got[0]}:{entry}", {"sources": sources, "entry": entry, "names": list(names), "chain": [[list(d), o] for d, o in chain]}, expect, got))
            elif got[0] not in ("required", "inheritance-error"):
                out.append((f"C08:required-vs-{got[0]}:{entry}", {"sources": sources, "entry": entry, "names": list(names), "chain": [[list(d), o] for d, o in chain]}, "required", got))
            continue
        ok = (want[0] == "ok" and got == want) or (want[0] == "required" and got[0] == "required")
        if not ok:
            kind = "wrong-page" if want[0] == "ok" and got[0] == "ok" else f"{want[0]}-vs-{got[0]}"
            out.append((f"C08:{kind}:{entry}", {"sources": sources, "entry": entry, "names": list(names), "chain": [[list(d), o] for d, o in chain]}, want, got))
    if res is not None:
        overrides = any(sum(1 for k in range(n) if chain[k][0][i] != "absent") >= 2 for i in range(len(names)))
        if overrides:
            res.nontrivial.add(h64(sources))
    return out


# ------------------------------------------------------------------ a chain included inside an overriding block of another chain

LAYOUT = "{% block a %}A0{% endblock %}|{% block b %}B0{% endblock %}|{% block c %}C0{% endblock %}"
PAGE = "{% extends 'layout' %}{% block a %}[{% include 'u0' %}]{% endblock %}{% block b %}B1{{ block.super }}{% endblock %}"


def nested_space(tier: str) -> list[tuple[tuple[str, ...], int]]:
    out = []
    for names in (("w", "v"), ("b", "a")):
        per, size = chains_of(2, names, False)
        for idx in range(size):
            out.append((names, idx))
    return out


def check_nested(names: tuple[str, ...], idx: int, res: ShardResult | None) -> list[tuple[str, Any, Any, Any]]:
    out: list[tuple[str, Any, Any, Any]] = []
    per, _size = chains_of(2, names, False)
    chain = chain_at(per, 2, idx)
    sources = {f"u{k}": template_source(k, 2, chain[k][0], names, chain[k][1], prefix="u") for k in range(2)}
    sources.update(layout=LAYOUT, page=PAGE)
    inner = model_render(chain, names)
    for entry in ("sync", "async"):
        env = Environment(loader=DictLoader(dict(sources)))
        try:
            with cpu_budget(10.0):
                got = ("ok", env.get_template("page").render()) if entry == "sync" else _async(_get_render_named(env, "page"))
        except TimeBudget:
            got = ("timeout", None)
        except RequiredBlockError:
            got = ("required", None)
        except TemplateInheritanceError as e:
            got = ("inheritance-error", str(e.message)[:60])
        except LiquidError as e:
            got = ("liquid", type(e).__name__)
        if res is not None:
            res.evaluations += 1
            res.traces_validated += 1
            res.nontrivial.add(h64([names, idx, entry]))
        case = {"sources": sources, "entry": entry, "names": list(names), "index": idx}
        if inner[0] == "ok":
            want = ("ok", "[" + inner[1] + "]|B1B0|C0")
            if got != want:
                out.append((f"C08:nested-chain:{'wrong-page' if got[0] == 'ok' else got[0]}:{'same-block-names' if names[0] == 'b' else 'distinct-block-names'}", case, want, got))
        elif got[0] not in ("required", "inheritance-error"):
            out.append((f"C08:nested-chain:required-vs-{got[0]}", case, "required", got))
    return out


async def _get_render_named(env: Any, name: str) -> str:
    t = await env.get_template_async(name)
    return await t.render_async()


# ------------------------------------------------------------------ compositions: chains inside chains, blocks inside tags
#
# A level is a two- or three-template chain  c<L> -> [m<L> ->] b<L>  with blocks `a` and `b`; its base template may
# include the next level's leaf at one of five positions (three in its own text, one in the default body of `a`, one
# in the child's override of `a`), and the definitions of `a` may be wrapped in capture (output twice) / if / for.
# The model below is the whole of the property for these shapes: a block resolves to its most derived definition,
# block.super to the next one, whatever tag the definition is written in and whatever else the same render includes.

POSITIONS = ("none", "before", "between", "after", "in-default", "in-override")
WRAPS = ("none", "capture2", "if", "for2")


def _wrap(block: str, wrap: str, key: str) -> str:
    if wrap == "capture2":
        return "{% capture " + key + " %}" + block + "{% endcapture %}{{ " + key + " }}{{ " + key + " }}"
    if wrap == "if":
        return "{% if true %}" + block + "{% endif %}"
    if wrap == "for2":
        return "{% for q in (1..2) %}" + block + "{% endfor %}"
    return block


def composition_sources(levels: tuple, same_names: bool) -> tuple[dict[str, str], str]:
    """levels[i] = (position of the next level, child mode, mid mode, base wrap, mid wrap). Returns (sources, model output)."""
    sources: dict[str, str] = {}

    def build(i: int) -> str:  # returns the model's rendering of level i and fills in its templates
        pos, cmode, mmode, bwrap, mwrap = levels[i]
        last = i == len(levels) - 1
        site_src = "" if last or pos == "none" else "{% include 'c" + str(i + 1) + "' %}"
        site_txt = "" if last or pos == "none" else build(i + 1)
        na, nb = ("a", "b") if same_names else (f"a{i}", f"b{i}")

        def at(p: str) -> tuple[str, str]:
            return (site_src, site_txt) if pos == p else ("", "")

        # base
        d_src = f"[a{i}d" + at("in-default")[0] + "]"
        d_txt = f"[a{i}d" + at("in-default")[1] + "]"
        base = f"<{i}" + at("before")[0] + _wrap("{% block " + na + " %}" + d_src + "{% endblock %}", bwrap, f"k{i}") + at("between")[0]
        base += "{% block " + nb + " %}[b" + str(i) + "d]{% endblock %}" + at("after")[0] + f"{i}>"
        sources[f"b{i}"] = base
        # mid (optional): overrides `a` only
        parent = f"b{i}"
        m_txt = None
        if mmode != "absent":
            m_body = f"[a{i}m]" + ("{{ block.super }}" if mmode == "super" else "")
            sources[f"m{i}"] = "{% extends 'b" + str(i) + "' %}ignored" + _wrap("{% block " + na + " %}" + m_body + "{% endblock %}", mwrap, f"j{i}")
            parent = f"m{i}"
            m_txt = f"[a{i}m]" + (d_txt if mmode == "super" else "")
        # child: overrides `a` (plain or with super) and `b` (always with super)
        below = m_txt if m_txt is not None else d_txt
        c_body_src = f"[a{i}c" + at("in-override")[0] + "]" + ("{{ block.super }}" if cmode == "super" else "")
        c_txt = f"[a{i}c" + at("in-override")[1] + "]" + (below if cmode == "super" else "")
        sources[f"c{i}"] = "{% extends '" + parent + "' %}{% block " + na + " %}" + c_body_src + "{% endblock %}{% block " + nb + " %}[b" + str(i) + "c]{{ block.super }}{% endblock %}"
        times = 2 if bwrap in ("capture2", "for2") else 1
        return f"<{i}" + at("before")[1] + c_txt * times + at("between")[1] + f"[b{i}c][b{i}d]" + at("after")[1] + f"{i}>"

    return sources, build(0)


def composition_space(tier: str) -> list[tuple[tuple, bool]]:
    out: list[tuple[tuple, bool]] = []
    plain_level = [(p, c, "absent", "none", "none") for p in POSITIONS[1:] for c in ("plain", "super")]
    last_level = [("none", c, "absent", "none", "none") for c in ("plain", "super")]
    # nesting through include, up to three chains deep, every position at every level
    for depth in (2, 3) if tier == "quick" else (2, 3, 4):
        for combo in itertools.product(plain_level, repeat=depth - 1):
            for last in last_level:
                for same in (True, False):
                    out.append((combo + (last,), same))
    # one or two levels with every wrapping of the definitions and an optional middle template
    for c, m, bw, mw in itertools.product(("plain", "super"), ("absent", "plain", "super"), WRAPS, WRAPS):
        if m == "absent" and mw != "none":
            continue
        out.append(((("none", c, m, bw, mw),), True))
        for p in POSITIONS[1:]:
            out.append((((p, c, m, bw, mw), ("none", "super", "super", "capture2", "none")), True))
    return out


def check_composition(levels: tuple, same: bool, res: ShardResult | None) -> list[tuple[str, Any, Any, Any]]:
    out: list[tuple[str, Any, Any, Any]] = []
    sources, want = composition_sources(levels, same)
    for entry in ("sync", "async"):
        env = Environment(loader=DictLoader(dict(sources)))
        try:
            with cpu_budget(10.0):
                got = ("ok", env.get_template("c0").render()) if entry == "sync" else _async(_get_render_named(env, "c0"))
        except TimeBudget:
            got = ("timeout", None)
        except LiquidError as e:
            got = ("liquid", type(e).__name__ + ": " + str(e.message)[:60])
        if res is not None:
            res.evaluations += 1
            res.traces_validated += 1
            res.nontrivial.add(h64([levels, same, entry]))
            res.outcomes.add(h64(len(levels)))
        if got != ("ok", want):
            wraps = "+".join(sorted({l[3] for l in levels} | {l[4] for l in levels}))
            out.append((f"C08:composition:{'wrong-page' if got[0] == 'ok' else got[0]}:depth{len(levels)}:{wraps}", {"sources": sources, "entry": entry, "levels": [list(l) for l in levels], "same_names": same}, ("ok", want), got))
    return out


# ------------------------------------------------------------------ error configurations


def error_cases() -> list[dict[str, Any]]:
    cases: list[dict[str, Any]] = []
    B = "{% block x %}b{% endblock %}"
    # required not overridden at every depth (the required block is in the root, so it is rendered)
    for depth in (1, 2, 3, 4):
        srcs = {f"t{k}": ("{% extends 't" + str(k + 1) + "' %}" if k < depth - 1 else "") + ("{% block x required %}r{% endblock %}" if k == depth - 1 else "{% block other %}o{% endblock %}") for k in range(depth)}
        cases.append({"name": f"required-not-overridden-depth{depth}", "sources": srcs, "want": "required"})
        # required in the middle of the chain, the leaf does not override, the root defines the block
        if depth >= 3:
            srcs2 = {
                "t0": "{% extends 't1' %}{% block other %}o{% endblock %}",
                **{f"t{k}": "{% extends 't" + str(k + 1) + "' %}{% block x required %}m{% endblock %}" for k in range(1, depth - 1)},
                f"t{depth - 1}": "[" + B + "]",
            }
            cases.append({"name": f"required-in-middle-not-overridden-depth{depth}", "sources": srcs2, "want": "required"})
    # duplicate block names
    cases.append({"name": "duplicate-flat-in-leaf", "sources": {"t0": "{% extends 't1' %}" + B + B, "t1": B}, "want": "inheritance"})
    cases.append({"name": "duplicate-flat-in-root", "sources": {"t0": "{% extends 't1' %}" + B, "t1": B + B}, "want": "inheritance"})
    cases.append({"name": "duplicate-nested-in-leaf", "sources": {"t0": "{% extends 't1' %}{% block x %}{% block x %}i{% endblock %}{% endblock %}", "t1": B}, "want": "inheritance"})
    cases.append({"name": "duplicate-nested-in-root", "sources": {"t0": "{% extends 't1' %}" + B, "t1": "{% block y %}{% block x %}a{% endblock %}{% endblock %}" + B}, "want": "inheritance"})
    cases.append({"name": "duplicate-in-if", "sources": {"t0": "{% extends 't1' %}" + B, "t1": "{% if true %}" + B + "{% endif %}" + B}, "want": "inheritance"})
    cases.append({"name": "duplicate-in-middle", "sources": {"t0": "{% extends 't1' %}" + B, "t1": "{% extends 't2' %}" + B + B, "t2": B}, "want": "inheritance"})
    # more than one extends
    cases.append({"name": "two-extends", "sources": {"t0": "{% extends 't1' %}{% extends 't1' %}" + B, "t1": B}, "want": "inheritance"})
    cases.append({"name": "two-extends-different", "sources": {"t0": "{% extends 't1' %}{% extends 't2' %}" + B, "t1": B, "t2": B}, "want": "inheritance"})
    cases.append({"name": "two-extends-in-middle", "sources": {"t0": "{% extends 't1' %}" + B, "t1": "{% extends 't2' %}{% extends 't2' %}", "t2": B}, "want": "inheritance"})
    cases.append({"name": "second-extends-in-if", "sources": {"t0": "{% extends 't1' %}{% if true %}{% extends 't1' %}{% endif %}", "t1": B}, "want": "inheritance"})
    # mismatched endblock name
    cases.append({"name": "mismatched-endblock", "sources": {"t0": "{% extends 't1' %}{% block x %}a{% endblock y %}", "t1": B}, "want": "inheritance"})
    cases.append({"name": "mismatched-endblock-root", "sources": {"t0": "{% extends 't1' %}" + B, "t1": "{% block x %}a{% endblock z %}"}, "want": "inheritance"})
    cases.append({"name": "mismatched-endblock-nested", "sources": {"t0": "{% block x %}{% block y %}a{% endblock x %}{% endblock y %}"}, "want": "inheritance"})
    # missing parent
    cases.append({"name": "missing-parent", "sources": {"t0": "{% extends 'nope' %}" + B}, "want": "notfound"})
    cases.append({"name": "missing-grandparent", "sources": {"t0": "{% extends 't1' %}" + B, "t1": "{% extends 'nope' %}" + B}, "want": "notfound"})
    # every cyclic extends graph on <= 4 templates: each template extends exactly one (functional graph) and t0 reaches a cycle
    for n in (1, 2, 3, 4):
        for targets in itertools.product(range(n), repeat=n):
            # walk from t0
            seen, cur = set(), 0
            while cur not in seen:
                seen.add(cur)
                cur = targets[cur]
            srcs = {f"t{k}": "{% extends 't" + str(targets[k]) + "' %}{% block x %}" + str(k) + "{% endblock %}" for k in range(n)}
            cases.append({"name": f"cycle-{n}-{''.join(map(str, targets))}", "sources": srcs, "want": "inheritance"})
    # ---- configurations that must RENDER, with the page the functional model gives (written out here)
    # (a) template names with directories, the same file name at several levels of one acyclic chain
    D = ["site/page.html", "theme/page.html", "theme/base.html", "core/base.html"]
    for depth in (2, 3, 4):
        srcs = {D[k]: ("{% extends '" + D[k + 1] + "' %}" if k < depth - 1 else "<") + "{% block x %}" + str(k) + ("{{ block.super }}" if k < depth - 1 else "") + "{% endblock %}" + ("" if k < depth - 1 else ">") for k in range(depth)}
        cases.append({"name": f"same-file-name-in-chain-depth{depth}", "sources": {**srcs, "t0": "{% extends '" + D[0] + "' %}"}, "want": "page", "page": "<" + "".join(str(k) for k in range(depth)) + ">"})
    cases.append({"name": "same-file-name-root-without-extends", "sources": {"t0": "{% extends 'pages/base' %}", "pages/base": "{% extends 'base' %}{% block x %}p{{ block.super }}{% endblock %}", "base": "[{% block x %}b{% endblock %}]"}, "want": "page", "page": "[pb]"})
    # (b) a partial with blocks of its own, rendered (isolated scope) from inside a chain that uses the same block names
    CARD = "({% block x %}cardx{% endblock %}{% block y %}cardy{% endblock %})"
    for where, t1, page in (
        ("root-text", "[{% block x %}bx{% endblock %}]{% render 'card' %}", "[PX](cardxcardy)"),
        ("root-block", "[{% block x %}bx{% endblock %}{% block y %}{% render 'card' %}{% endblock %}]", "[PX(cardxcardy)]"),
        ("in-loop", "[{% block x %}bx{% endblock %}]{% for i in (1..2) %}{% render 'card' %}{% endfor %}", "[PX](cardxcardy)(cardxcardy)"),
    ):
        cases.append({"name": f"rendered-partial-with-blocks:{where}", "sources": {"t0": "{% extends 't1' %}{% block x %}PX{% endblock %}", "t1": t1, "card": CARD}, "want": "page", "page": page})
    cases.append({"name": "rendered-partial-with-blocks:in-override", "sources": {"t0": "{% extends 't1' %}{% block x %}PX{% render 'card' %}{% endblock %}{% block y %}PY{% endblock %}", "t1": "[{% block x %}bx{% endblock %}{% block y %}by{% endblock %}]", "card": CARD}, "want": "page", "page": "[PX(cardxcardy)PY]"})
    # (c) text of a child template that is outside every block is discarded, wherever it stands
    cases.append({"name": "child-text-after-extends", "sources": {"t0": "{% extends 't1' %} after {% block x %}leaf{% endblock %} tail", "t1": "[{% block x %}b{% endblock %}]"}, "want": "page", "page": "[leaf]"})
    cases.append({"name": "child-text-before-extends", "sources": {"t0": "before {% extends 't1' %}{% block x %}leaf{% endblock %}", "t1": "[{% block x %}b{% endblock %}]"}, "want": "page", "page": "[leaf]"})
    cases.append({"name": "rendered-chain-inside-chain", "sources": {"t0": "{% extends 't1' %}{% block x %}PX{% render 'c0' %}{% endblock %}", "t1": "[{% block x %}bx{% endblock %}{% block y %}by{% endblock %}]", "c0": "{% extends 'card' %}{% block y %}Y!{% endblock %}", "card": CARD}, "want": "page", "page": "[PX(cardxY!)by]"})
    return cases


def check_error_case(case: dict[str, Any], res: ShardResult | None) -> list[tuple[str, Any, Any, Any]]:
    out: list[tuple[str, Any, Any, Any]] = []
    for entry in ENTRIES:
        got = impl_render(dict(case["sources"]), entry)
        if res is not None:
            res.evaluations += 1
            res.traces_validated += 1
            res.outcomes.add(h64([got[0], entry]))
        want = case["want"]
        if want == "page":
            if entry in HOSTS:
                ok = got == ("ok", host_expectation(entry, case["page"], case["page"]))
            else:
                ok = got == ("ok", case["page"])
        elif want == "required":
            ok = got[0] == "required"
        elif want == "inheritance":
            ok = got[0] in ("inheritance-error", "required")
        else:
            ok = got == ("liquid", "TemplateNotFoundError")
        if not ok:
            cls = case["name"].split("-depth")[0] if "depth" in case["name"] else (case["name"] if not case["name"].startswith("cycle-") else "cycle")
            label = "config-wrong-page" if want == "page" else "error-config-not-rejected"
            cls = cls.split(":")[0]
            out.append((f"C08:{label}:{cls}:{got[0]}", {"error_case": case["name"], "sources": case["sources"], "entry": entry}, case.get("page", want), got))
    if res is not None:
        res.nontrivial.add(h64(case["name"]))
    return out


# ------------------------------------------------------------------ harness interface


# ------------------------------------------------------------------ parents loaded per tenant through a caching loader

TENANTS = (None, "acme", "acme/eu", "acme%2Feu", "acme%252Feu")
TENANT_PAGES = ("page", "eu/page", "inc")


def _tenant_sources() -> dict[tuple[Any, str], str]:
    """Every tenant has its own `base`, `eu/base`, and pages that extend them (the documented per-tenant layout: the
    namespace selects the source)."""
    out: dict[tuple[Any, str], str] = {}
    for t in TENANTS:
        tag = "shared" if t is None else t
        out[(t, "base")] = "[" + tag + ":base {% block b %}b0{% endblock %}]"
        out[(t, "eu/base")] = "[" + tag + ":eu/base {% block b %}b1{% endblock %}]"
        out[(t, "page")] = "{% extends 'base' %}{% block b %}P{{ block.super }}{% endblock %}"
        out[(t, "eu/page")] = "{% extends 'eu/base' %}{% block b %}Q{{ block.super }}{% endblock %}"
        out[(t, "inc")] = "{% include 'page' %}|{% include 'eu/page' %}"
    return out


def tenant_histories(tier: str) -> list[tuple[tuple[Any, str, str], ...]]:
    ops = [(t, pg, m) for t in TENANTS for pg in TENANT_PAGES for m in ("sync", "async")]
    ops1 = [o for o in ops if o[2] == "sync"]
    hist: list[tuple] = [(a,) for a in ops] + [(a, b) for a in ops1 for b in ops]
    if tier != "quick":
        hist += [(a, b, c) for a in ops1 for b in ops1 for c in ops1]
    return hist


def check_tenants(hist: tuple, res: ShardResult | None) -> list[tuple[str, Any, Any, Any]]:
    """A history of page renders for several tenants through ONE caching loader whose cache is keyed by the tenant: every
    render resolves its blocks against the rendering tenant's own parent, exactly as with a loader that caches nothing."""
    from liquid2.builtin.loaders.mixins import CachingLoaderMixin
    from liquid2.exceptions import TemplateNotFoundError
    from liquid2.loader import BaseLoader
    from liquid2.loader import TemplateSource

    srcs = _tenant_sources()

    class TenantLoader(BaseLoader):
        def get_source(self, env, template_name, *, context=None, **kwargs):  # noqa: ANN001, ANN202, ANN003
            t = kwargs.get("tenant", context.globals.get("tenant") if context is not None else None)
            try:
                return TemplateSource(srcs[(t, template_name)], template_name, None)
            except KeyError as e:
                raise TemplateNotFoundError(template_name) from e

    class CachingTenantLoader(CachingLoaderMixin, TenantLoader):
        def __init__(self) -> None:
            super().__init__(auto_reload=True, namespace_key="tenant", capacity=50)

    out: list[tuple[str, Any, Any, Any]] = []
    envs = {"cached": Environment(loader=CachingTenantLoader()), "plain": Environment(loader=TenantLoader())}
    for step, (t, pg, mode) in enumerate(hist):
        got = {}
        for k, env in envs.items():
            g = {} if t is None else {"tenant": t}
            kw = {} if t is None else {"tenant": t}
            if mode == "sync":
                got[k] = _safe(lambda env=env: env.get_template(pg, globals=g, **kw).render())
            else:
                async def go(env: Any = env) -> str:
                    tm = await env.get_template_async(pg, globals=g, **kw)
                    return await tm.render_async()

                got[k] = _async(go())
        if res is not None:
            res.evaluations += 2
            res.outcomes.add(h64(list(got["plain"])))
        if got["cached"] != got["plain"]:
            out.append((f"C08:tenant-cache-wrong-parent:{mode}", {"tenant_history": [list(o) for o in hist], "step": step}, got["plain"], got["cached"]))
            break
    return out


def plan(tier: str, seed: int):
    shards: list[Any] = []
    total = 0
    subs = {}
    for depth, names, vary in chain_space(tier):
        per, size = chains_of(depth, names, vary)
        subs[f"depth{depth}-names{len(names)}{'' if vary else '-fixed-outside-text'}"] = size
        total += size
        for lo, hi in chunks(size, max(1, min(256, size // 400))):
            shards.append(("chains", tier, depth, names, vary, lo, hi))
    errs = error_cases()
    for lo, hi in chunks(len(errs), 16):
        shards.append(("errors", tier, lo, hi))
    subs["error-configurations"] = len(errs)
    nested = nested_space(tier)
    for lo, hi in chunks(len(nested), 16):
        shards.append(("nested", tier, lo, hi))
    subs["nested-chains"] = len(nested)
    total += len(nested)
    comp = composition_space(tier)
    for lo, hi in chunks(len(comp), 32):
        shards.append(("comp", tier, lo, hi))
    subs["compositions"] = len(comp)
    total += len(comp)
    th = tenant_histories(tier)
    for lo, hi in chunks(len(th), 64):
        shards.append(("tenants", tier, lo, hi))
    subs["tenant-histories"] = len(th)
    total += len(th)
    meta = {"space_size": total + len(errs), "subspaces": subs, "bounds": {"entries": list(ENTRIES), "modes": list(MODES)}}
    return shards, meta


def run_shard(shard) -> ShardResult:
    res = ShardResult()
    if shard[0] == "chains":
        _, tier, depth, names, vary, lo, hi = shard
        per, size = chains_of(depth, names, vary)
        # quick: the cheap entry points on every chain, all six on every 7th; thorough: all six everywhere up to depth 3
        for idx in range(lo, hi):
            chain = chain_at(per, depth, idx)
            res.cases += 1
            entries = ENTRIES if (idx % 7 == 0 or size < 20000) else (ENTRIES[:2] + (ENTRIES[6 + idx % 5],))
            if size > 2_000_000:
                # the largest space (three-template chains over three block names): every chain through the synchronous
                # entry point, every 50th also through one of the others in turn
                entries = (ENTRIES[0], ENTRIES[1 + (idx // 50) % (len(ENTRIES) - 1)]) if idx % 50 == 0 else ENTRIES[:1]
            for sig, case, exp, obs in check_chain(chain, names, res, entries):
                res.violation(sig, {"part": "chain", "tier": tier, **case}, exp, obs, repro=_repro(case["sources"], case["entry"]))
            res.states.add(h64([depth, names, idx]))
        res.transitions = res.evaluations
        if lo == 0:
            ch = chain_at(per, depth, min(size - 1, 12345))
            res.samples.append({"chain": {f"t{k}": template_source(k, depth, ch[k][0], names, ch[k][1]) for k in range(depth)}, "model": model_render(ch, names)})
    elif shard[0] == "tenants":
        _, tier, lo, hi = shard
        for hist in tenant_histories(tier)[lo:hi]:
            res.cases += 1
            for sig, case, exp, obs in check_tenants(hist, res):
                res.violation(sig, {"part": "tenants", "tier": tier, **case}, exp, obs)
            res.states.add(h64(["tenants", [list(o) for o in hist]]))
            res.nontrivial.add(h64(["tenants", [list(o) for o in hist]]))
        res.transitions = res.evaluations
    elif shard[0] == "comp":
        _, tier, lo, hi = shard
        comp = composition_space(tier)
        for i in range(lo, hi):
            res.cases += 1
            for sig, case, exp, obs in check_composition(comp[i][0], comp[i][1], res):
                res.violation(sig, {"part": "comp", "tier": tier, **case}, exp, obs, repro=_repro(case["sources"], case["entry"]).replace("'t0'", "'c0'"))
            res.states.add(h64(["comp", i]))
        res.transitions = res.evaluations
    elif shard[0] == "nested":
        _, tier, lo, hi = shard
        nested = nested_space(tier)
        for i in range(lo, hi):
            res.cases += 1
            for sig, case, exp, obs in check_nested(nested[i][0], nested[i][1], res):
                res.violation(sig, {"part": "nested", "tier": tier, **case}, exp, obs, repro=_repro(case["sources"], case["entry"]).replace("'t0'", "'page'"))
            res.states.add(h64(["nested", i]))
        res.transitions = res.evaluations
    else:
        _, tier, lo, hi = shard
        errs = error_cases()
        for i in range(lo, hi):
            res.cases += 1
            for sig, case, exp, obs in check_error_case(errs[i], res):
                res.violation(sig, {"part": "error", "tier": tier, **case}, exp, obs, repro=_repro(case["sources"], case["entry"]))
            res.states.add(h64(errs[i]["name"]))
        res.transitions = res.evaluations
    return res


def _repro(sources: dict[str, str], entry: str) -> str:
    return (
        "# stand-alone reproduction (C08)\nfrom liquid2 import Environment, DictLoader\n"
        f"env = Environment(loader=DictLoader({sources!r}))\n"
        "print(repr(env.get_template('t0').render()))\n"
    )


def replay(case: dict[str, Any]) -> list[dict[str, Any]]:
    res = ShardResult()
    if case["part"] == "tenants":
        for sig, c, exp, obs in check_tenants(tuple(tuple(o) for o in case["tenant_history"]), None):
            res.violation(sig, case, exp, obs)
        return res.violations
    if case["part"] == "nested":
        for sig, c, exp, obs in check_nested(tuple(case["names"]), case["index"], None):
            if c["entry"] == case["entry"]:
                res.violation(sig, case, exp, obs)
        return res.violations
    if case["part"] == "comp":
        for sig, c, exp, obs in check_composition(tuple(tuple(l) for l in case["levels"]), case["same_names"], None):
            if c["entry"] == case["entry"]:
                res.violation(sig, case, exp, obs)
        return res.violations
    if case["part"] == "chain":
        names = tuple(case["names"])
        chain = [(tuple(d), o) for d, o in case["chain"]]
        for sig, c, exp, obs in check_chain(chain, names, None, (case["entry"],)):
            res.violation(sig, case, exp, obs)
    else:
        ec = next(e for e in error_cases() if e["name"] == case["error_case"])
        for sig, c, exp, obs in check_error_case(ec, None):
            if c["entry"] == case["entry"]:
                res.violation(sig, case, exp, obs)
    return res.violations
