"""C14 — caching loaders are transparent.

Explicit-state BFS (E3) over histories of operations on a *real* caching loader, against a 60-line LRU
reference model, for CachingDictLoader, CachingFileSystemLoader (mtime owned by the harness) and
CachingChoiceLoader x capacity x auto_reload x namespace mode. Operations: load-and-render(name, namespace,
globals) sync / async / through {% include %}, modify source, delete source, make the next load fail,
cancel an async load at its j-th step, render a previously obtained Template again. Every history up to the
depth bound is replayed on fresh objects; states are merged on (model state, implementation fingerprint).
Plus exhaustive schedules (E4) of 2-3 concurrent get_template_async -> render_async jobs on one loader.
"""

from __future__ import annotations

import inspect
import itertools
import os
from collections import OrderedDict
from typing import Any

from liquid2 import CachingChoiceLoader
from liquid2 import CachingDictLoader
from liquid2 import CachingFileSystemLoader
from liquid2 import DictLoader
from liquid2 import Environment
from liquid2.exceptions import LiquidError
from liquid2.exceptions import TemplateNotFoundError

from mc import seams
from mc.explore import bfs
from mc.harness import ShardResult
from mc.harness import h64
from mc.vloop import VLoop
from mc.vloop import explore

ID = "C14"
LEVEL = "model_checking"
ENGINES = ["E3 history BFS with canonical-state merge", "E4 virtual event loop schedule DFS", "E5 fault/cancel deviations"]
RULE = (
    "BFS over all operation histories up to the depth bound per loader configuration, merged on (LRU model state, "
    "implementation fingerprint = cache key order + version and bound globals of every cached template); every "
    "transition replays the history on fresh real objects and compares the step outcome with the reference model. "
    "A state is non-trivial when the cache holds at least one entry and at least one source was modified, deleted, "
    "evicted or a fault/cancel happened; schedules: every interleaving of k concurrent load+render jobs"
)
LEVEL_TEXT = (
    "Explicit-state model checking of the real caching loaders: the transition function is the implementation itself "
    "(one pending operation per transition), the invariant/oracle is an LRU reference model replayed in lock step, "
    "states are de-duplicated by a canonical form with a stated correctness argument, and every model trace is "
    "validated against the implementation (traces_validated_against_impl = transitions). Concurrency is covered by "
    "exhaustive schedule enumeration on a virtual event loop."
)
LEVEL_NOTE = (
    "Bounded: <= 3 names, 2 namespaces, capacity <= 3, histories <= depth; OS threads / ThreadSafeLRUCache locking are "
    "not explored; file mtimes are set by the harness (os.utime) so freshness is deterministic."
)
TECHNIQUE = "explicit-state BFS over operation histories on the real loader against an LRU reference model (lock-step conformance) + exhaustive event-loop schedule DFS"
ASSUMPTIONS = ["mtime granularity is controlled with os.utime", "asyncio tasks switch only at await points"]

WHO = (None, "alice", "bob")


def src_of(name: str, ver: int) -> str:
    return f"{name} v{ver} {{{{ who }}}}{{{{ m }}}}"


_MATTER = [""]  # what {{ m }} renders: "M" while a configuration whose loader supplies front matter is explored


def _lq(v: Any) -> str:
    return "" if v is None else ("true" if v is True else "false" if v is False else str(v))


def expect_out(name: str, ver: int, who: Any) -> str:
    return f"{name} v{ver} {_lq(who)}{_MATTER[0]}"


# ------------------------------------------------------------------ the real world

_ENVS: dict[int, Environment] = {}
_DISK: dict[str, dict[str, int | None]] = {}


class World:
    def __init__(self, cfg: dict[str, Any], root: str | None = None) -> None:
        self.cfg = cfg
        self.names = cfg["names"]
        self.p2: dict[str, int | None] = {n: 1 for n in self.names}  # the ordinary store (second search path of fs2)
        self.p1: dict[str, int | None] = {n: None for n in self.names}  # files shadowing it (first search path of fs2)
        self.last: dict[str, int] = {n: 1 for n in self.names}
        self.fail_next = False
        self.root = root
        _MATTER[0] = "M" if cfg["loader"] == "matter" else ""
        kw = dict(auto_reload=cfg["auto_reload"], capacity=cfg["capacity"])
        if cfg["nsmode"] != "none":
            kw["namespace_key"] = "ns"
        world = self

        def faulty(cls: type) -> type:
            class F(cls):  # type: ignore[misc, valid-type]
                def get_source(self, env, template_name, **k):  # noqa: ANN001, ANN202
                    if world.fail_next:
                        world.fail_next = False
                        raise TemplateNotFoundError(template_name)
                    return super().get_source(env, template_name, **k)

                async def get_source_async(self, env, template_name, **k):  # noqa: ANN001, ANN202
                    if world.fail_next:
                        world.fail_next = False
                        raise TemplateNotFoundError(template_name)
                    return await super().get_source_async(env, template_name, **k)

            return F

        kind = cfg["loader"]
        if kind == "dict":
            self.store: dict[str, str] = {n: src_of(n, 1) for n in self.names}
            self.loader = faulty(CachingDictLoader)(self.store, **kw)
        elif kind == "choice":
            self.store = {n: src_of(n, 1) for n in self.names}
            self.store1: dict[str, str] = {}  # the loader that is asked first; `shadow` puts a name into it
            self.loader = faulty(CachingChoiceLoader)([DictLoader(self.store1), DictLoader(self.store)], **kw)
        elif kind == "matter":
            from liquid2.builtin.loaders.mixins import CachingLoaderMixin
            from liquid2.loader import TemplateSource

            self.store = {n: src_of(n, 1) for n in self.names}

            class MatterLoader(CachingLoaderMixin, DictLoader):
                """A caching loader whose sources come with front matter (TemplateSource.matter)."""

                def __init__(self, templates: dict[str, str], **k: Any) -> None:
                    super().__init__(**k)
                    DictLoader.__init__(self, templates)

                def get_source(self, env, template_name, **k):  # noqa: ANN001, ANN202
                    src = DictLoader.get_source(self, env, template_name, **k)
                    return TemplateSource(src.source, src.name, src.uptodate, {"m": "M"})

                async def get_source_async(self, env, template_name, **k):  # noqa: ANN001, ANN202
                    return self.get_source(env, template_name, **k)

            self.loader = faulty(MatterLoader)(self.store, **kw)
        elif kind == "fs2":
            assert root is not None
            self.root = root = os.path.join(root, "two")
            d1, d2 = os.path.join(root, "p1"), os.path.join(root, "p2")
            os.makedirs(d1, exist_ok=True)
            os.makedirs(d2, exist_ok=True)
            for n in self.names:
                self._write(n, 1, "p2")
                if os.path.exists(os.path.join(d1, self._fname(n))):
                    os.unlink(os.path.join(d1, self._fname(n)))
            self.loader = faulty(CachingFileSystemLoader)([d1, d2], **({**kw, "ext": cfg["ext"]} if cfg.get("ext") else kw))
        else:
            assert root is not None
            disk = _DISK.setdefault(root, {})
            for n in self.names:
                if disk.get(n) != 1:
                    self._write(n, 1)
            self.loader = faulty(CachingFileSystemLoader)(root, **kw)
        # one Environment per worker process: it holds no loader/cache state (that lives in the fresh loader)
        pid = os.getpid()
        if pid not in _ENVS:
            _ENVS[pid] = Environment()
        self.env = _ENVS[pid]
        self.env.loader = self.loader
        self.held: Any = None

    @property
    def versions(self) -> dict[str, int | None]:
        """What an uncached loader serves now: the shadowing file if there is one, else the ordinary one."""
        return {n: (self.p1[n] if self.p1[n] is not None else self.p2[n]) for n in self.names}

    def _fname(self, name: str) -> str:
        """The file a name is stored in (a loader with a default extension is asked for names WITHOUT the suffix)."""
        return name + self.cfg.get("ext", "")

    def _write(self, name: str, ver: int, sub: str | None = None, older: bool = False) -> None:
        p = os.path.join(self.root, sub, self._fname(name)) if sub else os.path.join(self.root, name)  # type: ignore[arg-type]
        with open(p, "w") as fd:
            fd.write(src_of(name, ver))
        # (older: the new content arrives with a modification time EARLIER than the one it replaces, as cp -p / rsync -t do)
        t = 1000 - ver if older else 1000 + ver
        os.utime(p, (t, t))
        if not sub:
            _DISK.setdefault(self.root, {})[name] = ver  # type: ignore[arg-type]

    def modify(self, name: str, older: bool = False) -> None:
        nv = self.last[name] + 1
        self.last[name] = nv
        self.p2[name] = nv
        if self.cfg["loader"] == "fs":
            self._write(name, nv, older=older)
        elif self.cfg["loader"] == "fs2":
            self._write(name, nv, "p2", older=older)
        else:
            self.store[name] = src_of(name, nv)

    def delete(self, name: str) -> None:
        if self.p2[name] is None:
            return
        self.p2[name] = None
        if self.cfg["loader"] == "fs":
            os.unlink(os.path.join(self.root, name))  # type: ignore[arg-type]
            _DISK.setdefault(self.root, {})[name] = None  # type: ignore[arg-type]
        elif self.cfg["loader"] == "fs2":
            os.unlink(os.path.join(self.root, "p2", self._fname(name)))  # type: ignore[arg-type]
        else:
            del self.store[name]

    def shadow(self, name: str) -> None:
        """A file of the same name appears in the FIRST search path."""
        nv = self.last[name] + 1
        self.last[name] = nv
        self.p1[name] = nv
        if self.cfg["loader"] == "choice":
            self.store1[name] = src_of(name, nv)
        else:
            self._write(name, nv, "p1")

    def unshadow(self, name: str) -> None:
        if self.p1[name] is None:
            return
        self.p1[name] = None
        if self.cfg["loader"] == "choice":
            del self.store1[name]
        else:
            os.unlink(os.path.join(self.root, "p1", self._fname(name)))  # type: ignore[arg-type]

    # -- operations against the implementation
    def load_render(self, name: str, ns: str | None, who: str | None, mode: str, hold: bool = True) -> tuple:
        g = {"who": who} if who is not None else None
        try:
            if mode == "sync":
                kw = {"ns": ns} if ns is not None else {}
                t = self.env.get_template(name, globals=g, **kw)
                if hold:
                    self.held = t
                return ("ok", t.render())
            if mode == "async":
                kw = {"ns": ns} if ns is not None else {}

                async def job() -> str:
                    t = await self.env.get_template_async(name, globals=g, **kw)
                    if hold:
                        self.held = t
                    return await t.render_async()

                return self._run(job())
            parent_globals: dict[str, Any] = {}
            if who is not None:
                parent_globals["who"] = who
            if ns is not None:
                parent_globals["ns"] = ns
            inc = "{% include '" + name + "' %}"
            if "shadow" in mode:
                # local names spelled like the namespace key: the namespace is what the caller passed in, not these
                inc = "{% assign ns = 'y' %}{% for ns in 'x' %}{% with ns: 'zz' %}" + inc + "{% endwith %}{% endfor %}"
            parent = self.env.from_string(inc, globals=parent_globals)
            if not mode.endswith("async"):
                return ("ok", parent.render())
            return self._run(parent.render_async())
        except LiquidError as e:
            return ("liquid", type(e).__name__)
        except Exception as e:  # noqa: BLE001
            return ("foreign", f"{type(e).__name__}")

    def _run(self, coro: Any) -> tuple:
        kind, val = VLoop().run_all([coro])[0]
        if kind == "ok":
            return ("ok", val)
        if isinstance(val, LiquidError):
            return ("liquid", type(val).__name__)
        return ("foreign", type(val).__name__)

    def load_cancel(self, name: str, who: str | None, j: int) -> str:
        """Start an async load+render, run j scheduling steps, then cancel it."""
        from asyncio import events

        g = {"who": who} if who is not None else None

        async def job() -> str:
            t = await self.env.get_template_async(name, globals=g)
            return await t.render_async()

        loop = VLoop()
        old = events._get_running_loop()
        events._set_running_loop(loop)
        try:
            task = loop.create_task(job())
            for _ in range(j):
                if task.done() or not loop.step():
                    break
            if task.done():
                return "finished"
            task.cancel()
            n = 0
            while not task.done() and n < 100:
                loop.step()
                n += 1
            return "cancelled" if task.cancelled() else "finished"
        finally:
            events._set_running_loop(old)
            loop.close()

    def render_held(self) -> tuple | None:
        if self.held is None:
            return None
        try:
            return ("ok", self.held.render())
        except LiquidError as e:
            return ("liquid", type(e).__name__)

    def fingerprint(self) -> tuple:
        """Public-behaviour fingerprint: LRU key order + what every cached template would render now."""
        items = []
        for key in reversed(list(self.loader.cache.keys())):  # keys() is most-recent first; store oldest first
            t = self.loader.cache._cache[key]
            try:
                out = t.render()
            except Exception as e:  # noqa: BLE001
                out = type(e).__name__
            # how the entry was loaded is part of its future: a template loaded asynchronously carries an asynchronous
            # freshness check, which the synchronous path has to treat differently
            u = t.uptodate
            f = getattr(u, "func", u)
            how = "-" if u is None or self.cfg["loader"] not in ("fs", "fs2", "choice") else "a" if inspect.iscoroutinefunction(f) else "s"
            items.append((key, out, how))
        return tuple(items)


# ------------------------------------------------------------------ the reference model


class Model:
    def __init__(self, cfg: dict[str, Any]) -> None:
        self.cfg = cfg
        self.cache: OrderedDict[str, dict[str, Any]] = OrderedDict()
        self.p2: dict[str, int | None] = {n: 1 for n in cfg["names"]}
        self.p1: dict[str, int | None] = {n: None for n in cfg["names"]}
        self.older: dict[str, bool] = {n: False for n in cfg["names"]}
        self.last: dict[str, int] = {n: 1 for n in cfg["names"]}
        self.fail_next = False
        self.held: tuple | None = None
        self.dirty = False  # something other than plain loading has happened (non-triviality)

    @property
    def versions(self) -> dict[str, int | None]:
        return {n: (self.p1[n] if self.p1[n] is not None else self.p2[n]) for n in self.cfg["names"]}

    def key(self, name: str, ns: str | None) -> str:
        # (an unambiguous pair: neither names nor namespaces contain NUL)
        if self.cfg["nsmode"] != "none" and ns is not None:
            return f"{ns}\x00{name}"
        return name

    def has_freshness(self) -> bool:
        return self.cfg["loader"] in ("fs", "fs2")

    def tracks_how(self) -> bool:
        """Loaders whose cached templates carry a freshness callable (synchronous or asynchronous, depending on how the
        template was loaded): the file-backed ones, and the choice loader, which wraps every source found in a later
        loader with a check that no earlier loader has the name."""
        return self.cfg["loader"] in ("fs", "fs2", "choice")

    def bump(self, name: str, where: str, older: bool = False) -> None:
        self.last[name] += 1
        getattr(self, where)[name] = self.last[name]
        # the direction the modification time moved is part of the state (it is what freshness checks look at)
        self.older[name] = older
        self.dirty = True

    def load(self, name: str, ns: str | None, who: str | None, hold: bool, asynch: bool = False, via_include: bool = False) -> tuple:
        # (a template loaded by an include tag is cached without globals of its own: it renders in the parent's context)
        bound = None if via_include else who
        key = self.key(name, ns)
        cur = self.versions[name]
        entry = self.cache.get(key)
        how = "a" if asynch else "s"
        if self.cfg["loader"] == "choice" and self.p1[name] is not None:
            how = "-"  # found in the FIRST loader: the source is handed on as it is, without a freshness callable
        if entry is not None:
            self.cache.move_to_end(key)
            stale = entry["ver"] != cur
            # an entry loaded asynchronously carries an asynchronous freshness check; the synchronous path cannot
            # evaluate it and looks the source up again (the uncached loader's answer, so still transparent)
            unknown = entry["how"] == "a" and not asynch and self.tracks_how()
            # a choice loader over loaders without freshness information of their own notices exactly one thing: a
            # template found in a later loader is stale once an earlier loader has the name
            shadowed = self.cfg["loader"] == "choice" and entry["from"] == "p2" and self.p1[name] is not None
            if self.cfg["auto_reload"] and ((self.has_freshness() and stale) or unknown or shadowed):
                # the uncached loader's answer at this moment
                if self.fail_next:
                    self.fail_next = False
                    return ("liquid", "TemplateNotFoundError")
                if cur is None:
                    return ("liquid", "TemplateNotFoundError")
                self.cache[key] = {"ver": cur, "who": bound, "name": name, "how": how, "from": "p1" if self.p1[name] is not None else "p2"}
                if hold:
                    self.held = (key, name, cur, who)
                return ("ok", expect_out(name, cur, who))
            # the globals used are always the caller's; the cached entry itself is a snapshot and never changes
            if hold:
                self.held = (key, name, entry["ver"], who)
            return ("ok", expect_out(name, entry["ver"], who))
        if self.fail_next:
            self.fail_next = False
            return ("liquid", "TemplateNotFoundError")
        if cur is None:
            return ("liquid", "TemplateNotFoundError")
        if len(self.cache) >= self.cfg["capacity"]:
            self.cache.popitem(last=False)
            self.dirty = True
        self.cache[key] = {"ver": cur, "who": bound, "name": name, "how": how, "from": "p1" if self.p1[name] is not None else "p2"}
        if hold:
            self.held = (key, name, cur, who)
        return ("ok", expect_out(name, cur, who))

    def state(self) -> tuple:
        return (
            tuple((k, v["ver"], v["who"], v["how"] if self.tracks_how() else "-", v["from"]) for k, v in self.cache.items()),
            tuple(sorted(self.p1.items(), key=lambda kv: kv[0])), tuple(sorted(self.p2.items(), key=lambda kv: kv[0])),
            tuple(sorted(self.older.items(), key=lambda kv: kv[0])) if self.has_freshness() else (),
            self.fail_next,
            self.held,
        )


# ------------------------------------------------------------------ configurations and alphabets


def configs(tier: str) -> list[dict[str, Any]]:
    """Quick: two names, capacity <= 2, depth 4 (3 for the file-backed loaders, whose states also carry how each entry
    was loaded). Thorough: the same configurations all at depth 4, plus three names with capacity 3 at depth 3 and the
    smallest configuration at depth 5 (each configuration carries its own depth bound in `depth`)."""
    out = []
    names = ("n1", "n2")
    for loader in ("dict", "fs", "choice"):
        for cap in (1, 2):
            for ar in (True, False):
                for nsmode in ("none", "kwarg", "global"):
                    if tier == "quick" and loader == "choice" and nsmode != "none":
                        continue
                    out.append({"loader": loader, "capacity": cap, "auto_reload": ar, "nsmode": nsmode, "names": names})
    if tier != "quick":
        for loader in ("dict", "fs", "choice"):
            for ar in (True, False):
                for nsmode in ("none", "kwarg"):
                    out.append({"loader": loader, "capacity": 3, "auto_reload": ar, "nsmode": nsmode, "names": ("n1", "n2", "n3"), "depth": 3})
        out.append({"loader": "dict", "capacity": 1, "auto_reload": True, "nsmode": "none", "names": names[:1], "depth": 6})
        out.append({"loader": "dict", "capacity": 2, "auto_reload": True, "nsmode": "none", "names": names, "depth": 5})
    # variants (each explores one more dimension on one small configuration)
    out.append({"loader": "matter", "capacity": 2, "auto_reload": True, "nsmode": "none", "names": names[:2]})  # sources with front matter
    out.append({"loader": "dict", "capacity": 2, "auto_reload": True, "nsmode": "none", "names": names[:2], "whos": (1, True, 1.0)})  # equal but different globals
    out.append({"loader": "dict", "capacity": 2, "auto_reload": True, "nsmode": "kwarg", "names": ("n1", "y/n1"), "nss": (None, "x", "x/y")})  # slashes on both sides
    out.append({"loader": "dict", "capacity": 2, "auto_reload": True, "nsmode": "kwarg", "names": ("n1", "x/n1"), "nss": (None, "x")})  # a bare name that looks like a namespaced key
    out.append({"loader": "dict", "capacity": 3, "auto_reload": True, "nsmode": "kwarg", "names": ("n1",), "nss": ("x/y", "x%2Fy", "x%252Fy")})  # namespaces that differ only in how a slash is spelled
    out.append({"loader": "dict", "capacity": 2, "auto_reload": True, "nsmode": "global", "names": ("n1", "%/n1"), "nss": (None, "%", "")})  # the empty namespace and a lone percent sign
    out.append({"loader": "fs2", "capacity": 2, "auto_reload": True, "nsmode": "none", "names": names[:2]})  # two search paths, shadowing
    out.append({"loader": "fs2", "capacity": 1, "auto_reload": False, "nsmode": "none", "names": names[:1]})
    out.append({"loader": "fs2", "capacity": 2, "auto_reload": True, "nsmode": "none", "names": names[:2], "ext": ".liquid"})  # names requested without their suffix
    # the namespace comes from the render's globals; the including template also binds LOCAL names spelled like the key
    out.append({"loader": "dict", "capacity": 2, "auto_reload": True, "nsmode": "global", "names": names[:2], "shadowed_key": True})
    out.append({"loader": "choice", "capacity": 2, "auto_reload": True, "nsmode": "none", "names": names[:2], "shadowing": True})  # a name appears in the earlier loader
    return out


def alphabet_for(cfg: dict[str, Any], tier: str) -> list[tuple]:
    ops: list[tuple] = []
    names = cfg["names"]
    nsmode = cfg["nsmode"]
    if nsmode == "none":
        modes, nss = ("sync", "async", "include", "include-async"), (None,)
    elif nsmode == "kwarg":
        modes, nss = ("sync", "async"), (None, "x", "y")
    else:
        modes, nss = ("include", "include-async"), (None, "x", "y")
        if cfg.get("shadowed_key"):
            modes = ("include", "include-async", "include-shadow", "include-shadow-async")
    whos = cfg.get("whos") or (None, "alice")
    nss = cfg.get("nss") or nss
    if cfg["loader"] in ("fs2", "matter"):
        modes = ("sync", "async")  # (front matter belongs to a template rendered on its own, not to an included one)
    for n in names:
        for ns in nss:
            for who in whos:
                for m in modes:
                    ops.append(("load", n, ns, who, m))
    for n in names:
        ops.append(("modify", n))
        ops.append(("delete", n))
        if cfg["loader"] in ("fs", "fs2"):
            ops.append(("modify_older", n))
        if cfg["loader"] == "fs2" or (cfg["loader"] == "choice" and cfg.get("shadowing")):
            ops.append(("shadow", n))
            ops.append(("unshadow", n))
    ops.append(("fail_next",))
    if nsmode != "global":
        ops.append(("render_held",))
    if nsmode == "none":
        for n in names[:1]:
            for j in (1, 2) if tier == "quick" else (1, 2, 3):
                ops.append(("cancel", n, "bob", j))
    return ops


# ------------------------------------------------------------------ lock-step replay

_ROOTS: dict[int, str] = {}


def _root() -> str:
    pid = os.getpid()
    if pid not in _ROOTS:
        _ROOTS[pid] = seams.sandbox("verif_c14_")
    return _ROOTS[pid]


def replay_history(cfg: dict[str, Any], hist: tuple) -> tuple[Any, list[tuple[str, Any, Any]], bool]:
    """Replay `hist` on fresh objects in lock step with the model.

    Returns (canonical state key, problems of the LAST step, nontrivial)."""
    world = World(cfg, _root() if cfg["loader"] in ("fs", "fs2") else None)
    model = Model(cfg)
    problems: list[tuple[str, Any, Any]] = []
    callers: list[str | None] = []
    for i, op in enumerate(hist):
        last = i == len(hist) - 1
        probs: list[tuple[str, Any, Any]] = []
        kind = op[0]
        if kind == "load":
            _, name, ns, who, mode = op
            hold = mode in ("sync", "async")
            callers.append(who)
            want = model.load(name, ns, who, hold, asynch=mode.endswith("async"), via_include=mode.startswith("include"))
            world.fail_next = world.fail_next  # (flag is consumed inside the loader)
            got = world.load_render(name, ns, who, mode, hold=hold)
            if got != want:
                probs.append((_classify_load(want, got, callers, mode), {"model": want}, {"impl": got}))
        elif kind in ("modify", "modify_older"):
            model.bump(op[1], "p2", older=kind == "modify_older")
            world.modify(op[1], older=kind == "modify_older")
            assert world.versions == model.versions, (world.versions, model.versions)
        elif kind == "delete":
            model.p2[op[1]] = None
            model.dirty = True
            world.delete(op[1])
        elif kind == "shadow":
            model.bump(op[1], "p1")
            world.shadow(op[1])
            assert world.versions == model.versions, (world.versions, model.versions)
        elif kind == "unshadow":
            model.p1[op[1]] = None
            model.dirty = True
            world.unshadow(op[1])
        elif kind == "fail_next":
            model.fail_next = True
            model.dirty = True
            world.fail_next = True
        elif kind == "render_held":
            got = world.render_held()
            if model.held is not None and got is not None:
                _key, name, ver, who = model.held
                want = ("ok", expect_out(name, ver, who))
                if got != want:
                    sig = "C14:held-template-changed"
                    if got[0] == "ok" and got[1].startswith(f"{name} v{ver} "):
                        other = got[1][len(f"{name} v{ver} ") :]
                        if other != (who or "") and (other or None) in callers:
                            sig = "C14:held-template-renders-with-another-callers-globals"
                    probs.append((sig, {"model": want}, {"impl": got}))
        elif kind == "cancel":
            _, name, who, j = op
            model.dirty = True
            before = list(model.cache.items())
            status = world.load_cancel(name, who, j)
            if status == "finished":
                # the job ran to completion within j steps: it is an ordinary load
                callers.append(who)
                model.load(name, None, who, False, asynch=True)
            else:
                # allowed: cache unchanged, or the hit entry moved to most-recently-used
                key = model.key(name, None)
                fp_keys = [x[0] for x in world.fingerprint()]  # (cancel is only explored without namespaces: key == name)
                keys_same = [k for k, _ in before]
                keys_moved = [k for k in keys_same if k != key] + ([key] if key in keys_same else [])
                if fp_keys == keys_moved and key in model.cache:
                    model.cache.move_to_end(key)
                elif fp_keys != keys_same:
                    probs.append(("C14:cancelled-load-changed-the-cache", {"model_keys": keys_same}, {"impl_keys": fp_keys}))
        if not last:
            continue  # every proper prefix was itself checked as the last step of a shorter history
        # invariants after the step
        fp = world.fingerprint()
        if len(world.loader.cache) > cfg["capacity"]:
            probs.append(("C14:cache-exceeds-capacity", cfg["capacity"], len(world.loader.cache)))
        # the cache holds, oldest first, exactly the model's entries: compared by what each cached template renders
        # (name, version, the globals of the caller that loaded it), which does not depend on how keys are spelled
        mouts = [expect_out(v["name"], v["ver"], v["who"]) for v in model.cache.values()]
        if [x[1] for x in fp] != mouts and not probs:
            probs.append(("C14:lru-order-or-contents-differ-from-model", {"model": mouts}, {"impl": [x[1] for x in fp]}))
        problems = probs
    fp = world.fingerprint()
    key = h64([model.state(), fp, world.fail_next])
    nontrivial = bool(model.cache) and model.dirty
    return key, problems, nontrivial


def _last_version(prefix: tuple, name: str) -> int:
    v = 1
    for op in prefix:
        if op[0] == "modify" and op[1] == name:
            v += 1
    return v


def _classify_load(want: tuple, got: tuple, callers: list, mode: str) -> str:
    if want[0] == "ok" and got[0] == "ok":
        wn, wv, *ww = want[1].split(" ", 2)
        gparts = got[1].split(" ", 2)
        if len(gparts) == 3 and gparts[0] == wn and gparts[1] == wv:
            other = gparts[2]
            if (other or None) in callers or other == "":
                return "C14:render-with-another-callers-globals"
            return "C14:globals-differ"
        if len(gparts) == 3 and gparts[0] == wn:
            return "C14:stale-or-wrong-version-served"
        return "C14:wrong-template-served"
    if want[0] == "liquid" and got[0] == "ok":
        return "C14:served-where-uncached-loader-fails"
    if got[0] == "foreign":
        return f"C14:foreign-exception:{got[1]}"
    return f"C14:outcome-differs:{want[0]}-vs-{got[0]}"


# ------------------------------------------------------------------ schedules (E4)


def schedule_jobs(tier: str) -> list[tuple]:
    """Sets of concurrent jobs: (name, ns, who) each."""
    base = [("n1", None, "alice"), ("n1", None, "bob"), ("n2", None, "alice"), ("n1", None, None), ("n1", "x", "alice"), ("n1", "y", "bob")]
    sets = [c for c in itertools.combinations(base, 2)]
    if tier == "thorough":
        sets += [c for c in itertools.combinations(base[:5], 3)]
    return sets


def check_schedule_set(cfg: dict[str, Any], jobs: tuple, res: ShardResult | None, max_runs: int) -> list[tuple[str, Any, Any, Any]]:
    out: list[tuple[str, Any, Any, Any]] = []
    seen: set[str] = set()
    expected = [("ok", expect_out(n, 1, w)) for n, _ns, w in jobs]
    whos = [w for _n, _ns, w in jobs]

    def run(loop: VLoop) -> Any:
        world = World(cfg, _root() if cfg["loader"] in ("fs", "fs2") else None)

        async def job(n: str, ns: str | None, w: str | None) -> str:
            import asyncio

            kw = {"ns": ns} if ns is not None and cfg["nsmode"] == "kwarg" else {}
            t = await world.env.get_template_async(n, globals={"who": w} if w else None, **kw)
            await asyncio.sleep(0)
            return await t.render_async()

        return loop.run_all([job(*j) for j in jobs])

    def on_run(loop: VLoop, result: Any) -> None:
        got = []
        for k, v in result:
            got.append(("ok", v) if k == "ok" else ("liquid", type(v).__name__) if isinstance(v, LiquidError) else ("foreign", type(v).__name__))
        if res is not None:
            res.evaluations += 1
            res.transitions += loop.steps
            res.states.add(h64([repr(cfg), jobs, loop.choices]))
            if any(loop.choices):
                res.nontrivial.add(h64([repr(cfg), jobs, loop.choices]))
            res.outcomes.add(h64(repr(got)))
        for i, (e, g) in enumerate(zip(expected, got)):
            if e != g:
                sig = "C14:concurrent:" + _classify_load(e, g, whos, "async")[4:]
                if sig not in seen:
                    seen.add(sig)
                    out.append((sig, {"jobs": [list(j) for j in jobs], "schedule": list(loop.choices), "job": i}, {"expected": e}, {"concurrent": g}))

    stats = explore(run, max_runs=max_runs, on_run=on_run)
    if res is not None:
        res.count("schedules", stats["schedules"])
        if stats["capped"]:
            res.capped = True
    return out


# ------------------------------------------------------------------ harness interface

_STATE: dict[str, Any] = {}


def plan(tier: str, seed: int):
    cfgs = configs(tier)
    depth = 4
    # (quick tier: the file-backed configurations, whose states also carry how each entry was loaded, go to depth 3)
    shards: list[Any] = [("bfs", tier, i, c.get("depth") or (3 if tier == "quick" and c["loader"] in ("fs", "fs2") else depth)) for i, c in enumerate(cfgs)]
    # (the largest state spaces first: the run is as long as its longest shard)
    shards.sort(key=lambda sh: (-sh[3], cfgs[sh[2]]["loader"] not in ("fs", "fs2")))
    sched_cfgs = [c for c in cfgs if c["capacity"] == 2 and c["auto_reload"] and c["nsmode"] in ("none", "kwarg") and c["loader"] in ("dict", "fs") and "nss" not in c and "whos" not in c]
    nsets = 0
    for ci, c in enumerate(cfgs):
        if c in sched_cfgs:
            for si, js in enumerate(schedule_jobs(tier)):
                if len(js) == 3 and c["loader"] != "dict":
                    continue  # (three jobs over the file-backed loader: millions of schedules; pairs are exhaustive there)
                shards.append(("sched", tier, ci, si))
                nsets += 1
    meta = {
        "space_size": len(cfgs) + nsets,
        "exhaustive": True,
        "bounds": {"depth": depth, "depth_file_backed_quick": 3, "configurations": len(cfgs), "schedule_sets": nsets, "names": len(cfgs[0]["names"])},
        "subspaces": {"bfs-configurations": len(cfgs), "schedule-sets": nsets},
    }
    return shards, meta


def run_shard(shard) -> ShardResult:
    res = ShardResult()
    kind, tier, ci = shard[0], shard[1], shard[2]
    cfg = configs(tier)[ci]
    _MATTER[0] = "M" if cfg["loader"] == "matter" else ""
    res.cases += 1
    if kind == "bfs":
        depth = shard[3]
        ops = alphabet_for(cfg, tier)
        nontrivial_keys: set[int] = set()

        def replay(hist: tuple):
            key, probs, nontriv = replay_history(cfg, hist)
            res.evaluations += 1
            if nontriv:
                nontrivial_keys.add(key)
            return key, probs

        out = bfs(replay, lambda hist: ops, depth, max_transitions=600000 if tier == "quick" else 4000000)
        res.transitions += out["transitions"]
        res.traces_validated += out["transitions"]
        res.states |= {h64([ci, k]) for k in out["state_keys"]}
        res.nontrivial |= {h64([ci, k]) for k in nontrivial_keys}
        res.capped = res.capped or out["capped"]
        res.count("bfs_states", out["states"])
        res.count("bfs_transitions", out["transitions"])
        for hist, (sig, exp, obs) in out["problems"]:
            res.violation(sig, {"kind": "bfs", "tier": tier, "config": cfg, "history": [list(o) for o in hist]}, exp, obs, repro=_repro(cfg, hist))
        res.samples.append({"config": cfg, "alphabet_size": len(ops), "states": out["states"], "transitions": out["transitions"], "example_history": [list(o) for o in (ops[0], ops[-1], ops[1])]})
    else:
        si = shard[3]
        jobs = schedule_jobs(tier)[si]
        for sig, case, exp, obs in check_schedule_set(cfg, jobs, res, 100000 if tier == "quick" else 1000000):
            res.violation(sig, {"kind": "sched", "tier": tier, "config": cfg, **case}, exp, obs)
    return res


def _repro(cfg: dict[str, Any], hist: tuple) -> str:
    return (
        "# stand-alone reproduction (C14): replay this operation history against the LRU reference model\n"
        "import sys; sys.path.insert(0, '/verif')\n"
        "from checks import c14\n"
        f"cfg = {cfg!r}\nhist = {tuple(hist)!r}\n"
        "key, problems, _ = c14.replay_history(cfg, hist)\nprint(problems)\nassert not problems\n"
    )


def replay(case: dict[str, Any]) -> list[dict[str, Any]]:
    res = ShardResult()
    cfg = dict(case["config"])
    cfg["names"] = tuple(cfg["names"])
    for k in ("whos", "nss"):
        if k in cfg:
            cfg[k] = tuple(cfg[k])
    _MATTER[0] = "M" if cfg["loader"] == "matter" else ""
    if case["kind"] == "bfs":
        hist = tuple(tuple(o) for o in case["history"])
        _k, probs, _n = replay_history(cfg, hist)
        _k2, probs2, _n2 = replay_history(cfg, hist)
        assert [p[0] for p in probs] == [p[0] for p in probs2], "history replay is not deterministic"
        for sig, exp, obs in probs:
            res.violation(sig, case, exp, obs)
    else:
        jobs = tuple(tuple(j) for j in case["jobs"])
        for sig, c, exp, obs in check_schedule_set(cfg, jobs, None, 10**7):
            res.violation(sig, case, exp, obs)
    return res.violations
