"""C16 — strict undefined raises only for missing variables and refines the default policy.

Enumerated: the standard program space x (4 base data sets x every subset of the referenced
names {g, h, arr, h.a} deleted) x {Undefined, StrictUndefined, FalsyStrictUndefined}.
Oracle (differential, with a recording Undefined subclass counting how many undefined values
the default render created): (i) the default policy never raises UndefinedError; (ii) a strict
or falsy-strict UndefinedError implies the default run created >= 1 undefined, in particular
with nothing missing it must not raise; (iii) a strict / falsy-strict render that succeeds
produces exactly the default output.
"""

from __future__ import annotations

import itertools
import re
from typing import Any

from liquid2 import FalsyStrictUndefined
from liquid2 import StrictUndefined
from liquid2 import Undefined
from liquid2.exceptions import LiquidError
from liquid2.exceptions import UndefinedError

from mc import grammar
from mc import impl
from mc import progspace as ps
from mc.harness import ShardResult
from mc.harness import h64
from mc.vloop import run_solo

ID = "C16"
LEVEL = "exploration"
ENGINES = ["E1 spaces"]
RULE = (
    "standard program space x deletion lattice (every subset of {g,h,arr,h.a} removed from 4 base data sets) x 3 "
    "undefined policies; non-trivial when the default render of some data set created at least one undefined value "
    "and at least one other data set created none (the program really depends on a possibly-missing name); distinct by source"
)
LEVEL_TEXT = (
    "Bounded-exhaustive differential exploration over programs x all deletion subsets x the three undefined policies "
    "on the real implementation; the oracle relates the policies to each other and to a count of undefined values "
    "actually created, so no expected outputs are needed."
)
LEVEL_NOTE = (
    "'uses a missing variable' is decided from the default-policy run of the same program and data: a recording "
    "Undefined subclass counts every touch that a strict undefined would refuse (attribute access outside the allowed "
    "list and every special method StrictUndefined overrides); a strict error with no such touch is a violation. Only "
    "the names of the grammar's data domain are deleted."
)
TECHNIQUE = "bounded-exhaustive enumeration of programs x deletion lattice x policies with a policy-differential oracle and a recording Undefined"
ASSUMPTIONS = ["Environment(undefined=...) is a public extension point; the recording subclass only counts instantiations"]


class RecUndefined(Undefined):
    """The default Undefined, recording how many were created and how many times one was *touched* in a way that a
    strict undefined refuses (any attribute outside StrictUndefined.allowed_properties, and every special method
    StrictUndefined overrides). Behaviour is unchanged."""

    __slots__ = ()
    created = 0
    touched = 0
    _quiet = frozenset(StrictUndefined.allowed_properties) | {"__class__", "__slots__", "__dict__"}

    paths: list[str] = []

    def __init__(self, *a: Any, **kw: Any) -> None:
        super().__init__(*a, **kw)
        RecUndefined.created += 1
        # an undefined made because the ROOT name is missing carries no hint (resolve) or the hint "'name' is undefined";
        # one made further down a path names the failing prefix ("h.a is undefined", "index out of range")
        path, hint = object.__getattribute__(self, "path"), object.__getattribute__(self, "hint")
        if hint is None or hint == f"{path!r} is undefined":
            RecUndefined.paths.append(path)

    def __getattribute__(self, name: str) -> Any:
        if name not in RecUndefined._quiet:
            RecUndefined.touched += 1
        return object.__getattribute__(self, name)

    def __contains__(self, item: object) -> bool:
        RecUndefined.touched += 1
        return super().__contains__(item)

    def __eq__(self, other: object) -> bool:
        RecUndefined.touched += 1
        return super().__eq__(other)

    def __getitem__(self, key: Any) -> object:
        RecUndefined.touched += 1
        return super().__getitem__(key)

    def __len__(self) -> int:
        RecUndefined.touched += 1
        return super().__len__()

    def __iter__(self):  # noqa: ANN204
        RecUndefined.touched += 1
        return super().__iter__()

    def __str__(self) -> str:
        RecUndefined.touched += 1
        return super().__str__()

    def __int__(self) -> int:
        RecUndefined.touched += 1
        return super().__int__()

    def __hash__(self) -> int:
        RecUndefined.touched += 1
        return super().__hash__()

    def __reversed__(self):  # noqa: ANN204
        RecUndefined.touched += 1
        return super().__reversed__()


_STATE: dict[str, Any] = {}


def deletion_lattice(n: grammar.Names) -> list[dict[str, Any]]:
    bases = [grammar.data_sets(n)[i] for i in (1, 3, 4, 7)]
    out: list[dict[str, Any]] = []
    seen = set()
    keys = [n.g, n.h, n.arr, (n.h, "a")]
    for base in bases:
        for r in range(len(keys) + 1):
            for sub in itertools.combinations(keys, r):
                d = {k: (dict(v) if isinstance(v, dict) else v) for k, v in base.items()}
                for k in sub:
                    if isinstance(k, tuple):
                        if isinstance(d.get(k[0]), dict):
                            d[k[0]].pop(k[1], None)
                    else:
                        d.pop(k, None)
                key = repr(sorted(d.items(), key=lambda kv: kv[0]))
                if key not in seen:
                    seen.add(key)
                    out.append(d)
    # the same lattice with the value nil instead of the key missing: a variable that EXISTS and is nil is not undefined
    for base in bases[:2]:
        for r in range(1, len(keys) + 1):
            for sub in itertools.combinations(keys, r):
                d = {k: (dict(v) if isinstance(v, dict) else v) for k, v in base.items()}
                for k in sub:
                    if isinstance(k, tuple):
                        if isinstance(d.get(k[0]), dict):
                            d[k[0]][k[1]] = None
                    else:
                        d[k] = None
                key = repr(sorted(d.items(), key=lambda kv: kv[0]))
                if key not in seen:
                    seen.add(key)
                    out.append(d)
    return out


EXTRA_TEMPLATES = {"lam": "{{ items | where: i => i.kind == want | size }}{{ items | map: i => want | first }}{{ items | find: i => i.kind == want | size }}",
                   "image": "<img {{ image.src }}>", "text": "<p>{{ text.body }}</p>", "quote": "<q>{{ quote.body }}{{ quote.by }}</q>", "row": "[{{ row }}]"}
EXTRA_DATA = {
    "blocks": [{"kind": "image", "src": "a.png"}, {"kind": "text", "body": "hello"}, {"kind": "quote", "body": "b", "by": "me"}, {"kind": "image", "src": "c.png"}],
    "names": ["row", "text"], "flags": [False], "nils": [None], "cnt": 2, "one": 1, "h": {"n": 3, "z": None}, "amount": 12, "when": 0,
}  # fmt: skip


def extra_cases() -> list[dict[str, Any]]:
    """Constructs the generated space does not reach: one node loading different partials in turn, plural filters with a
    count that comes from data, the formatting filters that read configuration variables of their own."""
    srcs = [
        "{% for b in blocks %}{% include b.kind with b %}{% endfor %}", "{% for b in blocks %}{% include b.kind for blocks %}{% break %}{% endfor %}",
        "{% for nm in names %}{% include nm with one %}{% endfor %}{% for nm in names reversed %}{% include nm with one %}{% endfor %}",
        "{% include blocks[0].kind with blocks[0] %}{% include blocks[1].kind with blocks[1] %}",
        "{{ 'one item' | ngettext: 'many items', cnt }}", "{{ 'one item' | npgettext: 'ctx', 'many items', h.n }}", "{{ 'one item' | ngettext: 'many items', h.nosuch }}",
        "{% assign c2 = h.n %}{{ 'one' | ngettext: 'many', c2 }}", "{{ 'one' | t: plural: 'many', count: cnt }}", "{{ 'one %(count)s' | t: plural: 'many %(count)s', count: h.n }}",
        "{% translate count: cnt %}one{% plural %}many{% endtranslate %}", "{% translate count: h.n, context: h.z %}one{% plural %}many {{ count }}{% endtranslate %}",
        "{{ amount | unit: 'length-meter' }}", "{{ amount | unit: 'length-meter', length: 'short' }}", "{{ amount | currency }}", "{{ amount | decimal }}", "{{ when | datetime }}",
        "{{ amount | money }}{{ amount | money_with_currency }}", "{{ amount | currency: group_separator: false }}{{ amount | decimal: group_separator: false }}", "{{ when | datetime: format: 'short' }}",
    ]
    srcs += [
        "{% if flags contains one %}Y{% else %}N{% endif %}{% if nils contains one %}Y{% else %}N{% endif %}", "{% assign a2 = h.z, one %}{{ a2 | uniq | size }}{% assign a3 = flags[0], one %}{{ a3 | uniq | size }}",
        "{% if one == false %}Y{% else %}N{% endif %}{% if one == nil %}Y{% else %}N{% endif %}{% if false == one %}Y{% else %}N{% endif %}", "{{ flags | where: 'k', one | size }}{{ nils | compact | size }}",
        "{% case one %}{% when false %}F{% when nil %}N{% else %}E{% endcase %}",
    ]
    # (the programs that bind a value of the wrong shape on purpose are not expected to succeed under strict policies)
    incomplete = ("nosuch", " for blocks %}", "with one %}")
    out = [{"source": s_, "own": True, "complete_ok": not any(x in s_ for x in incomplete)} for s_ in srcs]
    # an undefined KEPT in the local namespace (a macro parameter its caller omitted, a nil-valued property, a deleted
    # variable) and only ever handed to `default`: allowed under every policy, with and without resource limits configured
    keep = [
        "{% macro greet name, title %}{% assign t = title %}{{ t | default: 'Dear' }} {{ name }}{% endmacro %}{% call greet one %}",
        "{% macro m2 p, q %}{% capture c %}{{ p }}{% endcapture %}{% assign r = q %}{{ c }}{{ r | default: one }}{% endmacro %}{% call m2 cnt %}{% call m2 q: one, p: cnt %}",
        "{% assign y = h.z %}{{ y | default: 'n/a' }}{% assign w = one %}{{ w | default: 'n/a' }}", "{% assign y = one %}{% capture c %}{{ cnt }}{% endcapture %}{{ c }}{{ y | default: amount }}",
        "{% with v: one %}{% assign y = v %}{% endwith %}{{ y | default: 'n/a' }}{% for i in names %}{% assign last = i %}{% endfor %}{{ last }}",
    ]
    # one context-aware filter name used in two render contexts, each lambda reading a name of its OWN context
    keep += [
        "{{ blocks | where: i => i.kind == names[1] | size }}{% render 'lam', items: blocks, want: 'image' %}",
        "{% render 'lam', items: blocks, want: 'image' %}{% for nm in names %}{{ blocks | where: i => i.kind == nm | size }}{{ blocks | map: i => nm | last }}{% endfor %}",
        "{% macro mm want %}{{ blocks | where: i => i.kind == want | size }}{{ blocks | find: i => i.kind == want | size }}{% endmacro %}{{ blocks | where: i => i.kind == 'text' | size }}{{ blocks | find: i => i.kind == names[1] | size }}{% call mm 'image' %}",
        "{% assign want = 'text' %}{{ blocks | where: i => i.kind == want | size }}{% render 'lam', items: blocks, want: 'image' %}{{ blocks | where: i => i.kind == want | size }}",
    ]
    # one `call` node run against two definitions of the macro (same parameter names, a default added / removed / changed)
    sigs = ["who, greeting", "who, greeting: 'Good day'", "who, greeting: one", "greeting: 'Hi', who: 'x'"]
    for s1 in sigs:
        for s2 in sigs:
            if s1 != s2:
                # (a parameter that has a default is read directly: its value never is an undefined)
                b1, b2 = ("{{ greeting }} {{ who }};" if "greeting:" in x_ else "{{ greeting | default: 'Hi' }} {{ who }};" for x_ in (s1, s2))
                keep.append(
                    "{% for nm in names %}{% if forloop.first %}{% macro g2 " + s1 + " %}" + b1 + "{% endmacro %}{% else %}{% macro g2 " + s2
                    + " %}" + b2 + "{% endmacro %}{% endif %}{% call g2 one %}{% call g2 who: cnt %}{% endfor %}"
                )
    # message text with escaped percent signs: `%%(word)s` is literal text, not a message variable
    for f_ in ("t", "gettext", "ngettext: 'many %%(zzz)s', cnt", "pgettext: 'ctx'", "npgettext: 'ctx', '%%(zzz)s many', cnt", "t: plural: 'many %%(zzz)s', count: cnt"):
        keep += [
            "{{ 'Dear %(you)s, write %%(zzz)s here' | " + f_ + ("," if ":" in f_ else ":") + " you: one }}",
            "{{ '%%(zzz)s and 100%% of %(you)s %%%%(yyy)s' | " + f_ + ("," if ":" in f_ else ":") + " you: cnt }}",
        ]
    for s_ in keep:
        out.append({"source": s_, "own": True, "complete_ok": True})
        out.append({"source": s_, "own": True, "complete_ok": True, "limited": True})
    out += [{**c, "limited": True} for c in out[:8]]
    return out


def _extra_lattice() -> list[dict[str, Any]]:
    import copy

    out = [copy.deepcopy(EXTRA_DATA)]
    for k in ("cnt", "one", "h", "amount", "when", "names", "blocks"):
        d = copy.deepcopy(EXTRA_DATA)
        del d[k]
        out.append(d)
    for sub in ("n", "z"):
        d = copy.deepcopy(EXTRA_DATA)
        del d["h"][sub]
        out.append(d)
    for k in ("cnt", "one", "amount"):
        d = copy.deepcopy(EXTRA_DATA)
        d[k] = None
        out.append(d)
    d = copy.deepcopy(EXTRA_DATA)
    for b in d["blocks"]:
        b.pop("src", None)
        b.pop("by", None)
    out.append(d)
    return out


def _spaces(tier: str, seed: int) -> dict[str, ps.SubSpace]:
    key = (tier, seed)
    if _STATE.get("key") != key:
        sp = ps.standard_spaces(seed, tier, pairs="l0" if tier == "quick" else "l1")
        ex = extra_cases()
        sp.append(ps.SubSpace("dynamic-partials-and-config-readers", len(ex), lambda i: ex[i]))
        n = grammar.Names(seed)
        srcs = grammar.loader_sources(seed)
        _STATE.update(
            key=key,
            spaces={s.name: s for s in sp},
            data=deletion_lattice(n),
            srcs=srcs,
            envs={
                "default": impl.make_env(templates=srcs, undefined=RecUndefined),
                "strict": impl.make_env(templates=srcs, undefined=StrictUndefined),
                "falsy": impl.make_env(templates=srcs, undefined=FalsyStrictUndefined),
            },
            own_envs={
                "default": impl.make_env(templates=EXTRA_TEMPLATES, undefined=RecUndefined, shopify=True),
                "strict": impl.make_env(templates=EXTRA_TEMPLATES, undefined=StrictUndefined, shopify=True),
                "falsy": impl.make_env(templates=EXTRA_TEMPLATES, undefined=FalsyStrictUndefined, shopify=True),
            },
            # the same three policies with resource limits configured (none of them is ever reached)
            lim_envs={
                k: impl.make_env(templates=EXTRA_TEMPLATES, undefined=u, shopify=True, limits={"local_namespace_limit": 10**9, "loop_iteration_limit": 10**6, "output_stream_limit": 10**7})
                for k, u in (("default", RecUndefined), ("strict", StrictUndefined), ("falsy", FalsyStrictUndefined))
            },
            own_data=_extra_lattice(),
        )
    return _STATE["spaces"]


def plan(tier: str, seed: int):
    sp = _spaces(tier, seed)
    shards = [(tier, seed, name, lo, hi) for name, lo, hi in ps.shards_for(list(sp.values()), per=150)]
    meta = {
        "space_size": sum(s.size for s in sp.values()),
        "subspaces": {s.name: s.size for s in sp.values()},
        "bounds": {"data_sets": len(_STATE["data"]), "policies": 3},
    }
    return shards, meta


_filt = re.compile(r"\|\s*([a-z_]+)")


def _construct(src: str) -> str:
    tags = sorted(set(re.findall(r"\{%-?\s*([a-z]+)", src)))
    filters = sorted(set(_filt.findall(src)))
    return ",".join(t for t in tags if not t.startswith("end")) + "|" + ",".join(filters)


_LAST_UNDEFINED = [""]


def _render(t: Any, d: dict[str, Any]) -> tuple[str, Any]:
    try:
        return ("ok", t.render(**d))
    except UndefinedError as e:
        _LAST_UNDEFINED[0] = str(e.message)
        return ("undefined", None)
    except LiquidError as e:
        return ("liquid", type(e).__name__)
    except Exception as e:  # noqa: BLE001
        return ("foreign", type(e).__name__)


def check_case(case: dict[str, Any], res: ShardResult | None) -> list[tuple[str, Any, Any]]:
    out: list[tuple[str, Any, Any]] = []
    src = ps.case_source(case)
    envs = _STATE["lim_envs"] if case.get("limited") else _STATE["own_envs"] if case.get("own") else _STATE["envs"]
    datas = _STATE["own_data"] if case.get("own") else _STATE["data"]
    partial_sources = list((EXTRA_TEMPLATES if case.get("own") else _STATE["srcs"]).values())
    try:
        ts = {k: e.from_string(src, name="main") for k, e in envs.items()}
    except LiquidError:
        if res is not None:
            res.count("source_does_not_parse")
        return out
    created_some = created_none = False
    # (a macro parameter without an argument is an undefined of the parameter's own name, whatever the data holds)
    shadowers = set(re.findall(r"[\w-]+", " ".join(re.findall(r"\{%-?\s*macro\s+([^%]*)%\}", src))))
    for d in datas:
        RecUndefined.created = 0
        RecUndefined.touched = 0
        RecUndefined.paths.clear()
        base = _render(ts["default"], d)
        created = RecUndefined.created
        touched = RecUndefined.touched
        # data keys are visible everywhere (they are globals) and a template cannot unbind a name: an undefined made
        # for a bare name that is a key of the data means a variable that exists was treated as missing
        ghosts = sorted({p for p in RecUndefined.paths if p in d and p not in shadowers})
        if ghosts:
            out.append((f"C16:undefined-created-for-a-variable-that-exists:{_construct(src)}", "no undefined for a name bound in the data", {"names": ghosts, "data": d}))
        if created:
            created_some = True
        else:
            created_none = True
        if res is not None:
            res.evaluations += 3
            res.outcomes.add(h64([base[0], created > 0]))
        if base[0] == "undefined":
            out.append((f"C16:default-raises-UndefinedError:{_construct(src)}", "default policy never raises UndefinedError", {"data": d}))
        for pol in ("strict", "falsy"):
            o = _render(ts[pol], d)
            if o[0] == "undefined":
                # the name the error is about must be one the template (or a partial it loads) mentions: a variable
                # the ENGINE looks up for its own configuration is not something the template uses
                m = re.match(r"'([^']+)' is undefined", _LAST_UNDEFINED[0])
                if m and not re.search(r"(?<![\w-])" + re.escape(m.group(1)) + r"(?![\w-])", src + " ".join(partial_sources)):
                    out.append((f"C16:{pol}-raises-for-a-name-the-template-does-not-mention:{_construct(src)}", "UndefinedError only for variables the template uses", {"policy": pol, "name": m.group(1), "data": d}))
                if case.get("complete_ok") and d is datas[0]:
                    out.append((f"C16:{pol}-raises-on-complete-data:{_construct(src)}", "every variable this program uses exists in this data set", {"policy": pol, "error": _LAST_UNDEFINED[0], "data": d}))
            if o[0] == "undefined" and (created == 0 or touched == 0):
                out.append(
                    (
                        f"C16:{pol}-raises-with-nothing-missing:{_construct(src)}" if created == 0 else f"C16:{pol}-raises-although-no-undefined-was-used:{_construct(src)}",
                        {"default": base, "undefined_created_by_default_render": created, "undefined_touched_by_default_render": touched},
                        {"policy": pol, "render": "UndefinedError", "data": d},
                    )
                )
            # the asynchronous path must reach the same verdict under the strict policies
            ka, va = run_solo(ts[pol].render_async(**d))
            oa = ("ok", va) if ka == "ok" else ("undefined", None) if isinstance(va, UndefinedError) else ("liquid", type(va).__name__) if isinstance(va, LiquidError) else ("foreign", type(va).__name__)
            if res is not None:
                res.evaluations += 1
            if oa != o:
                out.append((f"C16:{pol}-async-verdict-differs:{_construct(src)}", {"sync": o}, {"policy": pol, "async": oa, "data": d}))
            if o[0] == "ok" and o != base:
                out.append(
                    (
                        f"C16:{pol}-succeeds-with-different-output:{_construct(src)}",
                        {"default": base},
                        {"policy": pol, "render": o, "data": d},
                    )
                )
    if res is not None and created_some and created_none:
        res.nontrivial.add(h64(src))
    return out


def run_shard(shard) -> ShardResult:
    tier, seed, name, lo, hi = shard
    sp = _spaces(tier, seed)[name]
    res = ShardResult()
    for i in range(lo, hi):
        case = sp.at(i)
        res.cases += 1
        for sig, exp, obs in check_case(case, res):
            c = dict(case)
            c["tier"], c["space"], c["index"] = tier, name, i
            c["source"] = ps.case_source(case)
            res.violation(sig, c, exp, obs, repro=_repro(c, obs))
        if len(res.samples) < 2 and i % 11 == 0:
            res.samples.append({"source": ps.case_source(case), "data_example": _STATE["data"][3]})
    return res


def _repro(case: dict[str, Any], obs: Any) -> str:
    d = obs.get("data") if isinstance(obs, dict) else {}
    return (
        "# stand-alone reproduction (C16)\n"
        "from liquid2 import Environment, DictLoader, StrictUndefined, FalsyStrictUndefined\n"
        f"srcs = {grammar.loader_sources(case.get('seed', 0))!r}\n"
        f"src = {case['source']!r}\n"
        f"data = {d!r}\n"
        "print('default:', repr(Environment(loader=DictLoader(srcs)).from_string(src).render(**data)))\n"
        "for U in (StrictUndefined, FalsyStrictUndefined):\n"
        "    print(U.__name__, repr(Environment(loader=DictLoader(srcs), undefined=U).from_string(src).render(**data)))\n"
    )


def replay(case: dict[str, Any]) -> list[dict[str, Any]]:
    _spaces(case.get("tier", "quick"), case.get("seed", 0))
    res = ShardResult()
    c = dict(case)
    if "prog" in c:
        c["prog"] = ps.totuple(c["prog"])
    for sig, exp, obs in check_case(c, None):
        res.violation(sig, case, exp, obs)
    return res.violations
