"""C11 — static analysis over-approximates runtime usage and reports exact locations.

Programs: the standard program space (every operation under three layouts, pairs, every wide expression in every site,
every primitive in every tag position, boolean expressions) with partials served by a loader (include by literal and by
variable, render, extends), every comment kind interleaved between statements; x the shared data domain so that
conditions take both values and loops run 0 and >= 1 times.
Runtime usage is recorded by a harness subclass of RenderContext (get / get_async / resolve / filter, propagated through
copy()), a logging mapping passed as global_data, and a wrapper around Node.render installed in the harness process.
Oracle: variables looked up <= analysis.variables, filters applied <= analysis.filters, tags executed <= analysis.tags,
names that reached the global mapping and that the template never binds <= analysis.globals; every reported span,
sliced from the NAMED template's source, is exactly the reported path / filter name / one tag with the reported name.
"""

from __future__ import annotations

import io
import re
from typing import Any

from liquid2 import DictLoader
from liquid2 import RenderContext
from liquid2.ast import BlockNode
from liquid2.ast import ConditionalBlockNode
from liquid2.ast import Node
from liquid2.exceptions import LiquidError
from liquid2.token import is_lines_token
from liquid2.token import is_tag_token

from mc import grammar
from mc import impl
from mc import progspace as ps
from mc.harness import ShardResult
from mc.harness import h64
from mc.lang import V
from mc.lang import FL
from mc.lang import S
from mc.lang import flt
from mc.vloop import run_solo

ID = "C11"
LEVEL = "exploration"
ENGINES = ["E1 spaces", "tracing render context"]
RULE = (
    "standard program space (+ comment-interleaved layouts, inheritance programs) x data domain; non-trivial when the "
    "union of the data sets executed at least one tag or looked up at least one variable AND the analysis reported at "
    "least one span that was checked; branch coverage is measured (executed tags / reported tags); distinct by source"
)
LEVEL_TEXT = (
    "Bounded-exhaustive exploration relating the static report to recorded executions of the same program on the real "
    "implementation: everything a run was observed to use must be in the report, and every reported span must slice to "
    "the thing it names."
)
LEVEL_NOTE = (
    "Soundness is checked against the union of the recorded runs (a branch never executed by any data set contributes "
    "nothing); a name counts as bound by the template when the analysis lists it under locals."
)
TECHNIQUE = "bounded-exhaustive enumeration of programs x data comparing recorded runtime usage (tracing RenderContext, logging mapping, node trace) with the static analysis report and its spans"
ASSUMPTIONS = ["RenderContext subclassing and Node.render wrapping observe every lookup / tag execution"]

TRACE: dict[str, set] = {"vars": set(), "filters": set(), "tags": set(), "globals": set()}


class TracingContext(RenderContext):
    def get(self, path, *, token, default=...):  # type: ignore[override]  # noqa: ANN001, ANN201
        TRACE["vars"].add(str(path[0]))
        if default is ...:
            return super().get(path, token=token)
        return super().get(path, token=token, default=default)

    async def get_async(self, path, *, token, default=...):  # type: ignore[override]  # noqa: ANN001, ANN201
        TRACE["vars"].add(str(path[0]))
        if default is ...:
            return await super().get_async(path, token=token)
        return await super().get_async(path, token=token, default=default)

    def filter(self, name, *, token):  # type: ignore[override]  # noqa: ANN001, ANN201
        TRACE["filters"].add(name)
        return super().filter(name, token=token)


class LoggingGlobals(dict):  # type: ignore[type-arg]
    def __getitem__(self, key: Any) -> Any:
        TRACE["globals"].add(key)
        return super().__getitem__(key)


_ORIG_RENDER = Node.render


def _traced_render(self: Node, context: Any, buffer: Any) -> int:
    tok = self.token
    if not isinstance(self, (BlockNode, ConditionalBlockNode)) and type(self).__name__ != "MultiExpressionBlockNode" and (is_tag_token(tok) or is_lines_token(tok)):
        TRACE["tags"].add(tok.name)
    return _ORIG_RENDER(self, context, buffer)


def install_trace() -> None:
    if Node.render is not _traced_render:
        Node.render = _traced_render  # type: ignore[method-assign]


_STATE: dict[str, Any] = {}


def extra_programs(n: grammar.Names) -> list[dict[str, Any]]:
    """Inheritance / partial-by-variable / ternary-filter programs as source cases."""
    t = {
        "base": "<{% block b %}B{{ g | upcase }}{% endblock %}|{% block c %}{% if h %}{{ arr | first }}{% endif %}{% endblock %}>",
        "mid": "{% extends 'base' %}{% block b %}M{{ block.super }}{{ h.a | default: 'd' }}{% endblock %}",
        "inc": "[{{ a }}{{ it }}{% assign made = g | append: 'x' %}{% for i in arr %}{{ i | json }}{% endfor %}]",
        "rex": "{% extends 'rbase' %}{% block rb %}{{ it }}{{ block.super }}{% endblock %}",
        "rbase": "[{{ a }}{% block rb %}{{ made }}{% endblock %}]",
        "rex2": "{% extends 'rbase' %}{% block rb %}{{ block.super }}{{ g }}{% endblock %}",
        # partial names with one, two and three dots: the implicit `with` / `for` name is the part before the FIRST dot
        "card.liquid": "{{ card.k }}{{ card | json }}", "card.compact.liquid": "{{ card.k }}{{ card | json }}", "line.item.v2.html": "{{ line.k }}{{ line | json }}{{ item }}",
    }
    progs = [
        "{% extends 'mid' %}{% block c %}L{{ arr | size }}{{ block.super }}{% endblock %}",
        "{% extends 'base' %}{% block b %}{{ h | json }}{% endblock %}",
        "{% assign nm = 'inc' %}{% include nm %}{{ made }}",
        "{% include 'inc' with g as it %}{% render 'inc', a: h %}{% render 'inc' for arr as it %}{{ made | downcase }}",
        "{{ g | upcase if h else arr | join: ',' | downcase || append: a }}",
        "{{ (g | default: 'x' | upcase) if false else 'y' }}" if False else "{{ g | default: 'x' | upcase if h.a else 'y' | append: g || size }}",
        "{% assign a = g | plus: 1 if h else arr | first | minus: 1 %}{{ a }}",
        "{% echo 's ${ g | upcase } ${ arr | where: x => x.a | map: y => y.k | join: h } e' %}",
        "{% macro m p, q: g %}{{ p | json }}{{ q }}{{ args | size }}{{ kwargs.z }}{{ unbound }}{% endmacro %}{% call m arr, z: h %}",
        "{% for i in arr %}{% for j in i %}{{ forloop.parentloop.index }}{{ j }}{% endfor %}{% else %}{{ h | size }}{% endfor %}{{ i }}{{ forloop }}",
        "{% translate x: g, count: arr.size %}Hi {{ x }}{% plural %}His {{ x }}{% endtranslate %}{{ 'm' | t: you: h }}",
        "{% with z: g %}{{ z }}{{ a }}{% endwith %}{{ z }}",
        "{% capture cc %}{{ g }}{% endcapture %}{{ cc | size }}{% increment cnt %}{{ cnt }}{% decrement cnt %}",
        "{% case g %}{% when h, 1 %}{{ arr[0] }}{% when 'a' %}{{ arr.last | upcase }}{% else %}{{ h.size }}{% endcase %}",
        "{% unless g %}{{ h | strip }}{% elsif arr %}{{ arr[g] }}{% else %}{{ a.b[h.a].c }}{% endunless %}",
        # the same partial loaded inside a block that binds one of its names and again outside it (both orders)
        "{% for a in arr %}{% include 'inc' %}{% endfor %}{% include 'inc' %}",
        "{% include 'inc' %}{% for a in arr %}{% include 'inc' %}{% endfor %}",
        "{% with it: g %}{% include 'inc' %}{% endwith %}{% include 'inc' %}{% for it in arr %}{% include 'inc' %}{% endfor %}",
        "{% for a in arr %}{% render 'inc' %}{% endfor %}{% render 'inc' %}{% render 'inc', a: 1 %}",
        "{% macro mm a %}{% render 'inc' %}{% endmacro %}{% call mm 1 %}{% include 'inc' %}",
        # liquid tags whose last line statement is closed on the same line
        "{% liquid echo g %}{% liquid\n assign q = g\n echo q -%}{% liquid if h\n echo h.a | upcase\n endif%}",
        # a chain rendered in an isolated scope: its templates do not see the names the root template binds
        "{% assign a = 1 %}{% assign it = 2 %}{% capture made %}m{% endcapture %}{% render 'rex' %}",
        "{% for a in arr %}{% render 'rex', it: a %}{% endfor %}{% assign made = 1 %}{% render 'rex' %}",
        # the same chain rendered twice with different argument sets (both orders), and two chains over one base
        *["{% render 'rex', " + nm + ": 1 %}{% render 'rex' %}" for nm in ("a", "made", "it")],
        *["{% render 'rex' %}{% render 'rex', " + nm + ": 1 %}" for nm in ("a", "made", "it")],
        "{% render 'rex', a: 1, made: 2 %}{% render 'rex2', made: 3 %}{% render 'rex2' %}{% render 'rex', it: 4 %}", "{% render 'rex2', a: 1 %}{% render 'rex', made: 1 %}{% render 'rex2', g: 1 %}{% render 'rex2' %}",
        # implicit names of partials whose file name has several dots
        "{% include 'card.liquid' with h %}{% include 'card.compact.liquid' with h %}{% include 'line.item.v2.html' with h %}",
        "{% include 'card.compact.liquid' for arr %}{% include 'line.item.v2.html' for arr %}{% render 'card.compact.liquid' with h %}{% render 'line.item.v2.html' for arr %}",
        "{% include 'card.compact.liquid' with h as it %}{% include 'line.item.v2.html', line: g %}",
        # arguments of filters on the LEFT of an inline condition
        "{{ g | plus: a if h else g }}{{ arr | map: r => r[it] | join: unbound if h }}{{ g | append: \"${ made | upcase }\" if h.a else 'n' }}",
        "{% assign q = arr | where: 'k', a | size if h else 0 %}{{ q }}{% echo g | default: it if false else g | default: made %}",
        # a partial loaded before a sibling statement binds a name the partial reads (order of analysis matters)
        "{% include 'inc' %}{% assign a = 1 %}{% assign it = 2 %}", "{% render 'inc' %}{% assign a = 1 %}{% capture it %}x{% endcapture %}{% include 'inc' %}",
        "{% include 'inc' %}{% for a in arr %}{% endfor %}{% increment it %}",
        # names bound by a block are not in scope in the parts of the block that run without the binding
        "{% for it in nosuch %}{{ it }}{% else %}{{ it }}{{ forloop.index }}{% endfor %}",
        "{% tablerow a in nosuch %}{{ a }}{% endtablerow %}{{ a }}",
        # inline conditions without an else branch: tail filters (and their arguments) apply either way
        "{{ g if h || append: a | prepend: \"${ arr | first | upcase }\" }}",
        "{{ g | upcase if h || append: a }}{{ g if h.a | default: it }}",
        "{% assign q = g if h || default: a, allow_false: made %}{{ q }}{% echo g if false || map: x => x.k | join: unbound %}",
        "{% liquid\n assign q = g | times: 2\n if q\n  echo q | plus: h.a\n endif\n for i in arr\n  cycle i, q\n endfor\n%}",
    ]
    # every path spelled as a word over segment spellings with white space around dots and inside brackets (the
    # reported span must be the whole path as written), at an output, a filter argument and a tag expression
    import itertools

    segs = [".a", "['a']", "[0]", "[g]", ". a", " .a", ".\na", "[ 'a' ]", " [0]"]
    for n_ in (1, 2, 3):
        for w in itertools.product(segs, repeat=n_):
            if n_ == 3 and not any(" " in x or "\n" in x for x in w):
                continue
            pth = "h" + "".join(w)
            progs.append("{{ " + pth + " }}{{ g | append: " + pth + " }}{% if " + pth + " %}y{% endif %}")
    return [{"source": s, "templates": t, "own_data": False} for s in progs]


def _spaces(tier: str, seed: int) -> dict[str, ps.SubSpace]:
    key = (tier, seed)
    if _STATE.get("key") != key:
        sp = ps.standard_spaces(seed, tier, pairs="l0" if tier == "quick" else "l1")
        n = grammar.Names(seed)
        ops = grammar.ops(seed)
        comments = ["{# c #}", "{% # c %}", "{% comment %} c {% endcomment %}"]

        def commented(i: int) -> dict[str, Any]:
            st = ops[i // 3]
            return {"prog": (("text", "x"), st, ("out", V(n.g)), st), "layout": {"comment_between": comments[i % 3]}, "seed": seed}

        sp.append(ps.SubSpace("comment-interleaved", len(ops) * 3, commented))
        extras = extra_programs(n)
        sp.append(ps.SubSpace("inheritance-and-partials", len(extras), lambda i: extras[i]))
        srcs = grammar.loader_sources(seed)
        _STATE.update(key=key, spaces={s.name: s for s in sp}, data=grammar.data_sets(n), srcs=srcs)
    return _STATE["spaces"]


def plan(tier: str, seed: int):
    sp = _spaces(tier, seed)
    shards = [(tier, seed, name, lo, hi) for name, lo, hi in ps.shards_for(list(sp.values()), per=200)]
    meta = {"space_size": sum(s.size for s in sp.values()), "subspaces": {s.name: s.size for s in sp.values()}, "bounds": {"data_sets": len(_STATE["data"])}}
    return shards, meta


_word = re.compile(r"[\u0080-￿a-zA-Z_][\u0080-￿a-zA-Z0-9_-]*")


def check_case(case: dict[str, Any], res: ShardResult | None) -> list[tuple[str, Any, Any]]:
    out: list[tuple[str, Any, Any]] = []
    install_trace()
    src = ps.case_source(case)
    templates = dict(case["templates"]) if "templates" in case else dict(_STATE["srcs"])
    templates["main"] = src
    env = impl.make_env(templates=templates)
    try:
        t = env.get_template("main")
    except LiquidError:
        if res is not None:
            res.count("does_not_parse")
        return out
    try:
        an = t.analyze()
    except LiquidError as e:
        if res is not None:
            res.count("analyze_liquid_error:" + type(e).__name__)
        return out
    except Exception as e:  # noqa: BLE001
        out.append((f"C11:analyze-raises:{type(e).__name__}", {"source": src}, f"{type(e).__name__}: {e}"))
        return out
    # ---- runtime usage, union over the data domain
    for k in TRACE:
        TRACE[k].clear()
    for d in _STATE["data"]:
        g = LoggingGlobals(d)
        ctx = TracingContext(t, global_data=t.make_globals(g))
        try:
            t.render_with_context(ctx, io.StringIO())
        except LiquidError:
            pass
        except Exception:  # noqa: BLE001  (C02's subject)
            if res is not None:
                res.count("foreign_in_render")
        if res is not None:
            res.evaluations += 1
    used_vars, used_filters, used_tags = set(TRACE["vars"]), set(TRACE["filters"]), set(TRACE["tags"])
    reached = set(TRACE["globals"])
    rep_vars, rep_filters, rep_tags = set(an.variables), set(an.filters), set(an.tags)
    bound = set(an.locals)
    extra = {"source": src, "templates": {k: v for k, v in templates.items() if k != "main"}}
    # the asynchronous twin of the analysis is a separate implementation: the same inclusions must hold for its report
    reports = [("", an)]
    # (the asynchronous analysis loads partials through a loader whose lookup really suspends)
    env_a = impl.make_env(loader=_SlowLoader(dict(templates)))
    kind_a, an_a = run_solo(_analyze_async(env_a))
    if kind_a == "ok":
        reports.append((":async", an_a))
        ns, na = _norm_report(an), _norm_report(an_a)
        if ns != na:
            part = next(k for k in ns if ns[k] != na[k])
            out.append((f"C11:async-analysis-differs:{part}", extra, {"sync": ns[part], "async": na[part]}))
    elif not isinstance(an_a, LiquidError):
        out.append((f"C11:analyze-async-raises:{type(an_a).__name__}", {"source": src}, f"{type(an_a).__name__}: {an_a}"))
    missed_sync: set[tuple[str, Any]] = set()
    for tag_, rep in reports:
        r_vars, r_filters, r_tags, r_bound = set(rep.variables), set(rep.filters), set(rep.tags), set(rep.locals)
        for v in sorted(used_vars - r_vars):
            if _dup(missed_sync, tag_, "v", v):
                continue
            out.append((f"C11:variable-used-but-not-reported{tag_}:{_where(src, v)}", extra, {"used": v, "reported": sorted(r_vars)}))
        for f in sorted(used_filters - r_filters):
            if _dup(missed_sync, tag_, "f", f):
                continue
            out.append((f"C11:filter-applied-but-not-reported{tag_}:{_filter_where(src, f)}", extra, {"applied": f, "reported": sorted(r_filters)}))
        for g_ in sorted(used_tags - r_tags):
            if _dup(missed_sync, tag_, "t", g_):
                continue
            out.append((f"C11:tag-executed-but-not-reported{tag_}:{g_}", extra, {"executed": g_, "reported": sorted(r_tags)}))
        # ('translations' is the engine's configuration variable for the catalog (translations_var), looked up by the
        #  translate tag and filters themselves, not a name the template mentions)
        for name in sorted(x for x in reached - r_bound - set(rep.globals) - {"translations"} if isinstance(x, str)):
            if _dup(missed_sync, tag_, "g", name):
                continue
            out.append((f"C11:global-lookup-not-reported{tag_}:{_where(src, name)}", extra, {"looked_up_in_globals": name, "reported_globals": sorted(rep.globals), "locals": sorted(r_bound)}))
    # ---- spans
    nspans = 0
    for name, vs in list(an.variables.items()) + list(an.globals.items()) + list(an.locals.items()):
        for var in vs:
            nspans += 1
            text = _slice(templates, var.span, t)
            if text is None:
                out.append(("C11:span-names-unknown-template", extra, {"variable": str(var), "template_name": var.span.template_name}))
            elif not _is_path_text(text, var):
                out.append((f"C11:variable-span-is-not-the-path", extra, {"variable": str(var), "span_text": text, "span": [var.span.template_name, var.span.start, var.span.end]}))
    for fname, spans in an.filters.items():
        for sp in spans:
            nspans += 1
            text = _slice(templates, sp, t)
            if text != fname:
                out.append(("C11:filter-span-is-not-the-filter-name", extra, {"filter": fname, "span_text": text, "span": [sp.template_name, sp.start, sp.end]}))
    for tname, spans in an.tags.items():
        for sp in spans:
            nspans += 1
            text = _slice(templates, sp, t)
            if text is None or not _is_tag_text(text, tname):
                out.append((f"C11:tag-span-is-not-the-tag:{tname}", extra, {"tag": tname, "span_text": text, "span": [sp.template_name, sp.start, sp.end]}))
    if res is not None:
        if (used_tags or used_vars) and nspans:
            res.nontrivial.add(h64([src, sorted(templates)]))
        res.count("tags_reported", len(rep_tags))
        res.count("tags_executed", len(used_tags & rep_tags))
        res.outcomes.add(h64([len(rep_vars), len(rep_filters), len(rep_tags)]))
    return out


class _SlowLoader(DictLoader):
    async def get_source_async(self, env: Any, template_name: str, *, context: Any = None, **kw: Any) -> Any:
        import asyncio

        await asyncio.sleep(0)
        return self.get_source(env, template_name, context=context, **kw)


async def _analyze_async(env: Any) -> Any:
    t = await env.get_template_async("main")
    return await t.analyze_async()


def _norm_report(an: Any) -> dict[str, Any]:
    def vs(d: Any) -> Any:
        return {k: sorted((str(v), v.span.template_name, v.span.start, v.span.end) for v in lst) for k, lst in d.items()}

    def sp(d: Any) -> Any:
        return {k: sorted((x.template_name, x.start, x.end) for x in lst) for k, lst in d.items()}

    return {"variables": vs(an.variables), "globals": vs(an.globals), "locals": vs(an.locals), "filters": sp(an.filters), "tags": sp(an.tags)}


def _dup(missed_sync: set[tuple[str, Any]], tag_: str, kind: str, item: Any) -> bool:
    """An omission of the synchronous report is reported once; the asynchronous report is only charged with its own."""
    if not tag_:
        missed_sync.add((kind, item))
        return False
    return (kind, item) in missed_sync


def _slice(templates: dict[str, str], span: Any, t: Any) -> str | None:
    name = span.template_name
    if name in (t.name, "main", ""):
        src = templates["main"]
    elif name in templates:
        src = templates[name]
    else:
        return None
    if not (0 <= span.start <= span.end <= len(src)):
        return None
    return src[span.start : span.end]


def _is_path_text(text: str, var: Any) -> bool:
    """The span text, lexed alone as an output expression, is exactly one path with the reported segments."""
    from liquid2.builtin import Path
    from liquid2.token import TokenType

    env = _STATE.setdefault("plain_env", impl.make_env())
    try:
        toks = env.tokenize("{{ " + text + " }}")
    except LiquidError:
        return False
    if len(toks) != 1 or not getattr(toks[0], "expression", None) or len(toks[0].expression) != 1:
        return False
    tok = toks[0].expression[0]
    if tok.type_ == TokenType.WORD or tok.type_.name in ("IF", "ELSE", "WITH", "FOR", "AS", "REQUIRED", "IN", "CONTAINS", "AND_WORD", "OR_WORD", "NOT_WORD", "TRUE", "FALSE", "NULL"):
        segs: Any = [tok.value]
    elif tok.type_ == TokenType.PATH:
        def conv(p: Any) -> Any:
            return [conv(s.path) if hasattr(s, "segments") or isinstance(s, Path) else s for s in p]

        segs = _segments(Path(tok, tok.path))
    else:
        return False
    return _norm(segs) == _norm(var.segments)


def _segments(path: Any) -> Any:
    from liquid2.builtin import Path

    return [_segments(s) if isinstance(s, Path) else s for s in path.path]


def _norm(x: Any) -> Any:
    if isinstance(x, (list, tuple)):
        return [_norm(y) for y in x]
    return str(x) if not isinstance(x, int) else x


def _is_tag_text(text: str, name: str) -> bool:
    """The span text is exactly one tag (or one line statement inside {% liquid %}) with the reported name."""
    env = _STATE.setdefault("plain_env", impl.make_env())
    if text.startswith("{%"):
        try:
            toks = env.tokenize(text)
        except LiquidError:
            return False
        return len(toks) == 1 and (is_tag_token(toks[0]) or is_lines_token(toks[0])) and toks[0].name == name
    # a line statement inside {% liquid %}: the span is the statement itself
    try:
        toks = env.tokenize("{% liquid " + text + "\n%}")
    except LiquidError:
        return False
    return len(toks) == 1 and is_lines_token(toks[0]) and len(toks[0].statements) == 1 and getattr(toks[0].statements[0], "name", None) == name


def _where(src: str, name: str) -> str:
    m = re.search(r"\{%-?\s*([a-z]+)[^%]*\b" + re.escape(name) + r"\b", src)
    return m.group(1) if m else "output"


def _filter_where(src: str, f: str) -> str:
    i = src.find("| " + f)
    if i < 0:
        i = src.find("|" + f)
    seg = src[max(0, src.rfind("{", 0, i)) : i]
    ends = [x for x in (src.find("}}", i), src.find("%}", i)) if x >= 0]
    after = src[i : min(ends)] if ends else src[i : i + 80]
    # 'ternary' = a filter on the LEFT of an inline condition (' if ' follows it in the same markup): the known finding.
    # A filter after the ' if ' (alternative branch or tail filter) is a different place.
    if " if " in after:
        return "ternary"
    return "ternary-branch-or-tail" if " if " in seg else "plain"


def run_shard(shard) -> ShardResult:
    tier, seed, name, lo, hi = shard
    sp = _spaces(tier, seed)[name]
    res = ShardResult()
    for i in range(lo, hi):
        case = sp.at(i)
        res.cases += 1
        for sig, extra, obs in check_case(case, res):
            c = {"tier": tier, "seed": seed, "space": name, "index": i, **extra}
            res.violation(sig, c, "runtime usage is covered by the analysis; spans slice to what they name", obs)
        if len(res.samples) < 2 and i % 17 == 0:
            res.samples.append(ps.case_source(case))
    return res


def replay(case: dict[str, Any]) -> list[dict[str, Any]]:
    sp = _spaces(case.get("tier", "quick"), case.get("seed", 0))[case["space"]]
    res = ShardResult()
    for sig, extra, obs in check_case(sp.at(case["index"]), None):
        res.violation(sig, case, "covered", obs)
    return res.violations
