"""C12 — str(template) reparses to a template with the same behaviour; pickling preserves behaviour.

Enumerated: the standard program space (every operation under three layouts, pairs, every wide
expression in every expression site, every primitive in every tag position incl. Shopify tags,
boolean expressions) plus the full 4^k marker cube on small programs, under the default and the
Shopify environment. Oracle (differential, no expected values): s1 = str(parse(src)) parses; for
every data set parse(s1) renders like parse(src) (same output or same error class); the same for
s2 = str(parse(s1)) and s3; pickle.loads(pickle.dumps(t)) renders like t.
"""

from __future__ import annotations

import asyncio
import json
import os
import pickle
from typing import Any

from liquid2.exceptions import LiquidError

from mc import grammar
from mc import impl
from mc import progspace as ps
from mc.harness import ShardResult
from mc.harness import h64

ID = "C12"
LEVEL = "exploration"
ENGINES = ["E1 spaces"]
RULE = (
    "every program of the standard space (ops x layouts, pairs, wide expressions x sites, primitives x tag "
    "positions, boolean expressions, 4^k marker cube) x every data set; non-trivial when the program parses and "
    "its serialisation differs textually from the source it was parsed from (so the round trip is not the identity) "
    "or it renders non-empty output; distinct by source text"
)
LEVEL_TEXT = (
    "Bounded-exhaustive differential exploration of str()/parse and pickle round trips on the real implementation: "
    "every enumerated program is parsed, serialised, reparsed (three generations) and rendered against every data "
    "set of the shared domain. The right level because the property is universal over programs and its failures are "
    "local to one node's __str__."
)
LEVEL_NOTE = (
    "Differential oracle (implementation against itself), so it cannot be stricter than the code; covers constructs "
    "and literals of the stated grammar only; non-idempotence of the text itself is not flagged."
)
TECHNIQUE = "bounded-exhaustive enumeration of programs x data with a round-trip differential oracle (str->parse x3, pickle) and re-observation of the serialised object (render after str, second str)"
ASSUMPTIONS = ["programs outside the generated grammar are not covered", "render outcome = output text or error class"]

_STATE: dict[str, Any] = {}


def odd_spellings() -> list[dict[str, Any]]:
    """Source spellings the printer of the generated space never produces: names written as quoted strings, names that
    are keywords or end in a line feed, integer path roots, keyword paths inside brackets, one-item array literals,
    empty blocks whose tags carry whitespace control, the largest printable integer literals."""
    names = ["a b", "with", "it's", 'q"q', "", "apple\n", "café", "x-y", "true", "for", "0", "a.b", "${x}", "\U0001f600", "a\U0001f600", "\U00020bb7x", "\U0010ffff", "\uffff", "\x80"]
    templates = {"p": "[{{ ['a b'] }}{{ x }}{{ with }}{{ ['apple\n'] }}]", "base": "<{% block 'a b' %}B{% endblock %}{% block c %}C{% endblock %}>"}
    data = {"arr": [1, 2], "xs": [1, 2, 3], "g": 1, "true": "T", "for": "k", "h": {"k": "hk", "apple": "A", "apple\n": "AN", "T": "hT", "0": "zero"},
            "a b": "AB", "apple": "a1", "apple\n": "a2", "with": "W", "0": "root-zero", "\U0001f600": "smile", "a\U0001f600": "asmile", "\U00020bb7x": "cjk", "\U0010ffff": "max", "\uffff": "bmpmax", "\x80": "c1"}
    data["h"].update({"\U0001f600": "hsmile", "a\U0001f600": "hasmile", "\U00020bb7x": "hcjk", "\U0010ffff": "hmax", "\uffff": "hbmpmax", "\x80": "hc1", "café": "hcafe"})
    srcs: list[str] = []
    for nm in names:
        q = "'" + nm.replace("\\", "\\\\").replace("'", "\\'").replace("\n", "\\n") + "'"
        srcs += [
            "{% macro " + q + " x %}M{{ x }}{% endmacro %}{% call " + q + " 1 %}{% macro a x %}A{% endmacro %}{% call a 2 %}",
            "{% block " + q + " %}x{% endblock %}", "{% block " + q + " %}x{% endblock " + q + " %}",
            "{% extends 'base' %}{% block " + q + " %}over{{ block.super }}{% endblock %}",
            "{% increment " + q + " %}{% increment " + q + " %}{% decrement " + q + " %}",
            "{% render 'p' for xs as " + q + " %}", "{% include 'p' with g as " + q + " %}", "{% render 'p' with g as " + q + " %}",
            "{% cycle " + q + ": 1, 2 %}{% cycle 1, 2 %}{% cycle " + q + ": 1, 2 %}",
            "{{ [" + q + "] }}{{ h[" + q + "] }}{{ h[" + q + "].size }}{{ [" + q + "][0] }}",
            # (a liquid tag is serialised from its tokens, not from the syntax tree)
            "{% liquid echo [" + q + "]\necho h[" + q + "]\necho h[" + q + "].size\necho h.k[" + q + "] %}", "{% liquid echo 'got ${h[" + q + "]} ${[" + q + "]}'\nassign z = h[" + q + "] | default: [" + q + "]\necho z %}",
        ]
    srcs += [
        "{{ [0] }}{{ [0].a }}{{ [1][2] }}{{ h[0] }}{{ [-1] }}", "{{ h[true] }}{{ h[for] }}{{ h[for][true] }}{{ arr[nil] }}{{ h[empty] }}{{ h[with].x }}", "{{ [true] }}{{ [for].size }}",
        "{% for x in arr, %}[{{ x }}]{% endfor %}", "{% assign y = arr, %}{{ y | size }}{{ y[0] | size }}", "{{ 1, | size }}{{ 'a', | join: '+' }}", "{% for x in arr, xs %}[{{ x | size }}]{% endfor %}",
        "{{ 1e4299 | size }}", "{{ -1e4298 | size }}", "{{ 12345e4294 | size }}", "{{ 0e9999 }}{{ 1e0 }}{{ 5E2 }}",
        "{% liquid echo ['true']\necho [0]\necho h[true]\necho [for]\necho [0].a\necho h[with] %}", "{% liquid assign z = [true]\necho z\nassign w = [0]\necho w\nif [with]\necho 'w'\nendif %}",
        "{% liquid echo ['true'] %}", "{% liquid echo [0] %}", "{% liquid echo h[true] %}", "{% liquid echo [true] %}", "{% liquid echo h[h['for']] %}",
        "{{ 1.0e999 }}", "{{ -1.0e999 }}", "{{ 1.5e400 | size }}", "{% assign f = 2.5e999 %}{{ f }}{% if f > 1 %}big{% endif %}", "{{ 1e999 }}", "{{ 1.0e-999 }}",
        "{{ 2 }}{{ 2.0 }}{{ 15 | divided_by: 7 }}{{ 15 | divided_by: 7.0 }}{% for i in (1..3) limit: 3 %}{{ i }}{% endfor %}{{ 3.0 | plus: 3 }}{{ 0 | default: 'd' }}{{ 0.0 | default: 'd' }}",
    ]
    # macro signatures x call argument forms (positional count x keyword subsets, declared and undeclared names)
    body = "[{{ a }}|{{ b }}|{{ c }}|{{ args | join: ',' }}|{% for kv in kwargs %}{{ kv[0] }}={{ kv[1] }};{% endfor %}]"
    for sig in ("a", "a, b: 'B'", "a, b: 'B', c: 'C'", "a: 'A', b: 'B', c: g"):
        for npos in range(4):
            pos = ["g", "'p2'", "3"][:npos]
            for mask in range(8):
                kws = [kw for i, kw in enumerate(("b: 'kb'", "c: xs[0]", "extra: 1")) if mask >> i & 1]
                srcs.append("{% macro m " + sig + " %}" + body + "{% endmacro %}{% call m " + ", ".join(pos + kws) + " %}")
    # empty branches whose tags carry whitespace control: dropping the tag drops its trimming
    for wc in ("-", "~", ""):
        srcs += [
            "{% for x in xs %}{{ x }}, {%" + wc + " else %}{% endfor %}|", "{% for x in xs %}{{ x }}, {% else " + wc + "%} {% endfor %}|", "{% for x in nosuch %}{%" + wc + " else " + wc + "%}{% endfor %} |",
            "{% if g %}y {%" + wc + " else %}{% endif %}|", "{% if g %}y {%" + wc + " elsif h %}{% endif %}|", "{% unless g %}{%" + wc + " else %} n{% endunless %}|",
            "{% case g %} {%" + wc + " when 1 %}{%" + wc + " else %}{% endcase %}|", "{% case g %}{% when 2 %}x {%" + wc + " else %}{% endcase %}|",
            "{% if g %}y {%" + wc + " endif %} |{% for x in xs %}{{ x }} {%" + wc + " endfor " + wc + "%} |{% capture c %} x {%" + wc + " endcapture %}[{{ c }}]",
        ]
    return [{"source": s_, "templates": templates, "data": data} for s_ in srcs]


_XPROC = r"""
import pickle, sys, json, base64
from liquid2 import DictLoader
from liquid2.shopify import Environment
job = json.loads(sys.stdin.read())
env = Environment(loader=DictLoader(job["templates"]))
t = env.from_string(job["source"], name="main")
sys.stdout.write(base64.b64encode(pickle.dumps(t)).decode())
"""


def xproc_cases() -> list[dict[str, Any]]:
    """Templates pickled by another interpreter (a different PYTHONHASHSEED, so nothing derived from hash() of a string
    survives) and rendered here, together with partials parsed here: names that must agree across the two (cycle groups,
    counters, macros, blocks) and every odd spelling."""
    templates = {
        "cyc": "{% cycle 'a', 'b' %}{% cycle g: 'a', 'b' %}{% cycle 1, 2 %}{% increment n %}",
        "base": "<{% block a %}A{% cycle 'a', 'b' %}{% endblock %}{% block b %}B{% endblock %}>",
        "lib": "{% macro m x %}m{{ x }}{% cycle 'a', 'b' %}{% endmacro %}",
    }
    data = {"g": "G", "xs": [1, 2, 3], "h": {"k": 1}}
    srcs = [
        "{% cycle 'a', 'b' %}{% include 'cyc' %}{% cycle 'a', 'b' %}{% include 'cyc' %}{% cycle 'a', 'b' %}",
        "{% cycle g: 'a', 'b' %}{% include 'cyc' %}{% cycle g: 'a', 'b' %}{% cycle 1, 2 %}{% include 'cyc' %}",
        "{% for x in xs %}{% cycle 'a', 'b' %}{% include 'cyc' %}{% endfor %}",
        "{% increment n %}{% include 'cyc' %}{% increment n %}{% decrement n %}",
        "{% extends 'base' %}{% block a %}{% cycle 'a', 'b' %}{{ block.super }}{% cycle 'a', 'b' %}{% endblock %}",
        "{% include 'lib' %}{% cycle 'a', 'b' %}{% call m 1 %}{% call m 2 %}{% cycle 'a', 'b' %}",
        "{% for x in xs %}{% for y in xs %}{% cycle x: 1, 2 %}{% endfor %}{% include 'cyc' %}{% endfor %}",
        "{% assign k = 'k' %}{{ h[k] }}{{ h.k }}{{ xs | map: 'a' | size }}{% capture c %}{% include 'cyc' %}{% endcapture %}{{ c }}{{ c }}",
        "{% render 'cyc' %}{% render 'cyc' %}{% cycle 'a', 'b' %}",
    ]
    out = [{"source": s_, "templates": templates, "data": data, "xproc": hs} for s_ in srcs for hs in (1, 2)]
    out += [dict(c, xproc=1) for c in odd_spellings()[::3]]
    return out


def _xproc_template(case: dict[str, Any]):
    import base64
    import subprocess
    import sys as _sys

    env = dict(os.environ, PYTHONHASHSEED=str(case["xproc"]))
    p = subprocess.run(
        [_sys.executable, "-c", _XPROC], input=json.dumps({"templates": case["templates"], "source": case["source"]}),
        capture_output=True, text=True, env=env, timeout=120, check=False,
    )
    if p.returncode != 0:
        return None, p.stderr.strip().splitlines()[-1] if p.stderr.strip() else "exit %d" % p.returncode
    return pickle.loads(base64.b64decode(p.stdout)), None


def _spaces(tier: str, seed: int) -> dict[str, ps.SubSpace]:
    key = (tier, seed)
    if _STATE.get("key") != key:
        sp = ps.standard_spaces(seed, tier, shopify=True, pairs="l0" if tier == "quick" else "l1")
        sp += ps.marker_spaces(seed, tier, 4 if tier == "quick" else 6)
        sp.append(ps.corpus_space())
        odd = odd_spellings()
        sp.append(ps.SubSpace("odd-spellings", len(odd), lambda i: odd[i]))
        xp = xproc_cases()
        sp.append(ps.SubSpace("xproc-pickle", len(xp), lambda i: xp[i]))
        _STATE["key"] = key
        _STATE["spaces"] = {s.name: s for s in sp}
        n = grammar.Names(seed)
        _STATE["data"] = grammar.data_sets(n)
        srcs = grammar.loader_sources(seed)
        _STATE["envs"] = {
            "default": impl.make_env(templates=srcs),
            "shopify": impl.make_env(templates=srcs, shopify=True),
        }
    return _STATE["spaces"]


def plan(tier: str, seed: int):
    sp = _spaces(tier, seed)
    shards = []
    for name, lo, hi in ps.shards_for(list(sp.values())):
        if name == "xproc-pickle":  # (each case starts another interpreter: spread them over the workers)
            shards += [(tier, seed, name, i, min(i + 4, hi)) for i in range(lo, hi, 4)]
        else:
            shards.append((tier, seed, name, lo, hi))
    shards.sort(key=lambda sh: 0 if sh[2] == "xproc-pickle" else 1)
    meta = {
        "space_size": sum(s.size for s in sp.values()),
        "subspaces": {s.name: s.size for s in sp.values()},
        "bounds": {"data_sets": len(_STATE["data"]), "generations": 3, "environments": ["default", "shopify"]},
    }
    return shards, meta


def _needs_shopify(case: dict[str, Any]) -> bool:
    return "tablerow" in str(case.get("prog")) or "templates" in case


def check_case(case: dict[str, Any], res: ShardResult | None) -> list[tuple[str, Any, Any]]:
    """Returns list of (sig, expected, observed)."""
    out: list[tuple[str, Any, Any]] = []
    src = ps.case_source(case)
    if "templates" in case:
        env = impl.make_env(templates=case["templates"], shopify=True)
        data = [case.get("data") or {}]
    else:
        env = _STATE["envs"]["shopify" if _needs_shopify(case) else "default"]
        data = _STATE["data"]
    try:
        t0 = env.from_string(src, name="main")
    except LiquidError:
        if res is not None:
            res.count("source_does_not_parse")
        return out
    base = [impl.outcome(t0.render, **d) for d in data]
    if res is not None:
        res.evaluations += len(data)
        res.outcomes.update(h64(list(o)) for o in base)
    prev_src, gen_ok, first_s = src, True, src
    tcur = t0
    for gen in (1, 2, 3):
        try:
            s = str(tcur)
        except Exception as e:  # noqa: BLE001
            out.append((f"C12:str-raises:{type(e).__name__}", "str(template) returns", f"{type(e).__name__}: {e}"))
            gen_ok = False
            break
        try:
            tnext = env.from_string(s, name="main")
        except LiquidError as e:
            out.append(
                (
                    f"C12:reparse-fails:{ps.norm_msg(e.message if isinstance(e.message, str) else str(e.message))}",
                    f"str(template) generation {gen} parses",
                    {"serialised": s, "error": f"{type(e).__name__}: {e.message}"},
                )
            )
            gen_ok = False
            break
        except Exception as e:  # noqa: BLE001
            out.append((f"C12:reparse-raises:{type(e).__name__}", "parses", {"serialised": s, "error": repr(e)}))
            gen_ok = False
            break
        for d, b in zip(data, base):
            o = impl.outcome(tnext.render, **d)
            if res is not None:
                res.evaluations += 1
            if o != b:
                out.append(
                    (
                        f"C12:behaviour-differs:{_diff_class(src, s)}",
                        {"render": b, "data": d},
                        {"render": o, "serialised": s, "generation": gen},
                    )
                )
                break
        if gen == 1:
            first_s = s
        prev_src, tcur = s, tnext
    if res is not None and (str(t0) != src or any(o[0] == "ok" and o[1] for o in base)):
        res.nontrivial.add(h64(src))
    # serialising is an observation, not an operation: after str(t0) the same object still behaves as it did, and a
    # second str(t0) still reparses to that behaviour (otherwise one of the two serialisations misdescribes t0)
    if gen_ok:
        for d, b in zip(data, base):
            o = impl.outcome(t0.render, **d)
            if res is not None:
                res.evaluations += 1
            if o != b:
                out.append(("C12:behaviour-differs-after-str", {"render": b, "data": d}, {"render after str(template)": o}))
                break
        try:
            s_again = str(t0)
            if s_again != first_s:
                t_again = env.from_string(s_again, name="main")
                for d, b in zip(data, base):
                    o = impl.outcome(t_again.render, **d)
                    if o != b:
                        out.append(("C12:second-str-differs", {"render": b, "data": d, "first": first_s}, {"render": o, "second": s_again}))
                        break
        except Exception as e:  # noqa: BLE001
            out.append((f"C12:second-str-fails:{type(e).__name__}", {"first": first_s}, repr(e)))
    # pickle
    if case.get("xproc"):
        t_x, err = _xproc_template(case)
        if t_x is None:
            out.append((f"C12:xproc-pickle-raises:{ps.norm_msg(str(err))}", "another interpreter parses and pickles the template", err))
        else:
            t_x.env.loader = env.loader  # partials are parsed by this interpreter
            for d, b in zip(data, base):
                o = impl.outcome(t_x.render, **d)
                o2 = impl.outcome(lambda **kw: asyncio.run(t_x.render_async(**kw)), **d)
                if res is not None:
                    res.evaluations += 2
                if o != b or o2 != b:
                    out.append(("C12:xproc-pickle-differs", {"render": b, "data": d}, {"render": o, "async": o2, "hashseed": case["xproc"]}))
                    break
    try:
        t_p = pickle.loads(pickle.dumps(t0))
    except Exception as e:  # noqa: BLE001
        out.append((f"C12:pickle-raises:{type(e).__name__}:{ps.norm_msg(str(e))}", "pickle round trip succeeds", f"{type(e).__name__}: {e}"))
        t_p = None
    if t_p is not None:
        for d, b in zip(data, base):
            o = impl.outcome(t_p.render, **d)
            if res is not None:
                res.evaluations += 1
            if o != b:
                out.append(("C12:pickle-differs", {"render": b, "data": d}, {"render": o}))
                break
    return out


def _diff_class(src: str, ser: str) -> str:
    """Name the first construct whose text changed (coarse: the markup piece around the first difference)."""
    import re

    i = 0
    m = min(len(src), len(ser))
    while i < m and src[i] == ser[i]:
        i += 1
    j = max(src.rfind("{", 0, i + 1), 0)
    piece = ser[j : j + 40]
    mm = re.match(r"\{[%{]-?[~+]?\s*([a-z]*)", piece)
    tag = mm.group(1) if mm and mm.group(1) else "output"
    return tag


def run_shard(shard) -> ShardResult:
    tier, seed, name, lo, hi = shard
    sp = _spaces(tier, seed)[name]
    res = ShardResult()
    for i in range(lo, hi):
        case = sp.at(i)
        res.cases += 1
        for sig, exp, obs in check_case(case, res):
            c = dict(case)
            c["tier"], c["space"], c["index"] = tier, name, i
            c["source"] = ps.case_source(case)
            res.violation(sig, c, exp, obs, repro=_repro(c))
        if len(res.samples) < 2 and i % 7 == 0:
            res.samples.append(ps.case_source(case))
    return res


def _repro(case: dict[str, Any]) -> str:
    shop = _needs_shopify(case)
    return (
        "# stand-alone reproduction (C12): str(template) must reparse to the same behaviour\n"
        + ("from liquid2.shopify import Environment\n" if shop else "from liquid2 import Environment\n")
        + "from liquid2 import DictLoader\n"
        f"env = Environment(loader=DictLoader({(case.get('templates') if 'templates' in case else grammar.loader_sources(case.get('seed', 0)))!r}))\n"
        f"src = {case['source']!r}\n"
        "t0 = env.from_string(src)\ns1 = str(t0)\nprint(s1)\nt1 = env.from_string(s1)\n"
        f"for d in {([case.get('data') or {}] if 'templates' in case else grammar.data_sets(grammar.Names(case.get('seed', 0))))!r}:\n"
        "    def r(t):\n        try: return t.render(**d)\n        except Exception as e: return type(e).__name__\n"
        "    assert r(t0) == r(t1), (d, r(t0), r(t1))\n"
    )


def replay(case: dict[str, Any]) -> list[dict[str, Any]]:
    _spaces(case.get("tier", "quick"), case.get("seed", 0))
    res = ShardResult()
    c = dict(case)
    if "prog" in c:
        c["prog"] = ps.totuple(c["prog"])
    for sig, exp, obs in check_case(c, None):
        res.violation(sig, case, exp, obs)
    return res.violations
