"""C09 — a render depends only on its inputs, never on earlier or concurrent renders.

Shared objects: one Environment (+ the module-level DEFAULT_ENVIRONMENT), one loader, one Template object
per stateful feature (counters, cycles, offset: continue, assign/capture, macros, extends + block.super,
translate, now/today, 'now'|date, partial includes, a template that fails half-way). Operations: render /
render_async / analyze / from_string / get_template / package-level render on those shared objects,
"configure another Environment", "advance the clock", "render with a fault at the k-th data access" for
every k, "cancel render_async at its j-th step" for every j. Every history up to the depth bound is executed
on fresh shared objects, followed by a probe (every template rendered at the current clock and again one hour
later). Oracle: every step and every probe equals the same call made on freshly built objects in a fresh
interpreter process with the clock at the same instant (baselines computed once per distinct call, one
subprocess each). Plus all interleavings (E4) of 2-3 concurrent render_async calls on the *same* Template.
"""

from __future__ import annotations

import datetime as _dt
import itertools
import json
import os
import subprocess
import sys
from concurrent.futures import ThreadPoolExecutor
from typing import Any

from mc import seams
from mc.harness import ShardResult
from mc.harness import h64

ID = "C09"
LEVEL = "model_checking"
ENGINES = ["E3 history enumeration", "E4 virtual event loop schedule DFS", "E5 fault/cancel deviations", "clock seam"]
RULE = (
    "every operation history up to the depth bound over the operation alphabet (renders of 15 stateful templates x "
    "data, analysis, parsing, loading, other-environment configuration, clock advance, one fault at every data access "
    "k, one cancellation at every step j), each followed by a probe of all templates at clock t and t+1h; a history "
    "is non-trivial when it contains at least two operations on shared objects and at least one of them rendered a "
    "stateful template; distinct by history"
)
LEVEL_TEXT = (
    "Exhaustive enumeration of short operation histories on shared real objects under a harness-owned clock, each step "
    "compared with the same call in a fresh interpreter (differential, no model), plus exhaustive schedule "
    "enumeration of concurrent renders of one Template object and single-deviation fault/cancel injection."
)
LEVEL_NOTE = (
    "History depth and alphabet are bounded; the clock seam replaces the `datetime` module attribute in liquid2.context "
    "and liquid2.builtin.filters.misc inside the harness process; fresh-interpreter baselines make process-wide caches visible."
)
TECHNIQUE = "exhaustive enumeration of API-call histories on shared objects with fresh-process differential baselines + exhaustive event-loop schedules + single fault/cancel deviations"
ASSUMPTIONS = [
    "the clock is read only through the datetime module attribute of the two modules that use it",
    "a fresh interpreter process is a faithful 'freshly built objects' baseline",
]

T0 = 1_700_000_000  # a fixed instant (UTC 2023-11-14 22:13:20)
HOUR = 3600

PARTIALS = {
    "p": "[{% increment c %}{% cycle 'x', 'y' %}{{ who }}]",
    "base": "<{% block b %}B{{ g }}{% endblock %}|{% block c %}C{% endblock %}>",
    "leaf": "{% extends 'base' %}{% block b %}L{{ block.super }}{% endblock %}",
}

TEMPLATES = {
    "counter": "{% increment c %}{% increment c %}{% decrement d %}{{ c }}",
    "cycle": "{% cycle 'a', 'b', 'c' %}{% cycle 'a', 'b', 'c' %}{% cycle g: 1, 2 %}",
    "offset": "{% for i in arr limit: 1 %}{{ i }}{% endfor %}{% for i in arr offset: continue %}{{ i }}{% endfor %}",
    "capture": "{{ a }}{{ b }}{% assign a = g %}{% capture b %}x{{ g }}{% endcapture %}{{ a }}{{ b }}",
    "macro": "{% call m 1 %}{% macro m x %}[{{ x }}{{ g }}]{% endmacro %}{% call m 2 %}",
    "extends": "{% extends 'base' %}{% block b %}T{{ block.super }}{% endblock %}{% block c %}{{ g }}{% endblock %}",
    "leaf": "{% extends 'leaf' %}{% block c %}Z{% endblock %}",
    "translate": "{% translate n: g %}Hello {{ n }}{% plural %}Hellos {{ n }}{% endtranslate %}",
    "now": "{{ now | date: '%Y-%m-%d %H:%M' }}",
    "today": "{{ today | date: '%Y-%m-%d' }}|{{ today }}",
    "nowfilter": "{{ 'now' | date: '%H:%M' }}",
    "todayfilter": "{{ 'today' | date: '%Y-%m-%d %H' }}",
    "include": "{% include 'p' %}{% include 'p' %}{% render 'p' %}",
    "failing": "{% increment c %}{% cycle 1, 2 %}{% assign a = 1 %}{{ 7 | divided_by: z }}{% increment c %}",
    "date_int": "{{ 1 | date: '%Y' }}{{ '86400' | date: '%j' }}",
    "date_float": "{{ 1.0 | date: '%Y' }}",
    "date_tz": "{{ d | date: '%H:%M %z' }}|{{ d | date: '%H' }}",
    "macro_render": "{% macro mr x %}{% render 'p', who: x %}{% endmacro %}{% call mr 'm' %}{% for i in arr limit: 1 %}{% call mr i %}{% endfor %}",
    "render_extends": "{% render 'leaf', g: g %}{% for i in arr limit: 1 %}{% render 'leaf' %}{% endfor %}",
    "drops": "{{ h.a }}{% for i in arr %}{{ i }}{% increment c %}{% endfor %}{{ h.b.c }}{% cycle 1, 2 %}",
}
TNAMES = sorted(TEMPLATES)

import datetime as _dt  # noqa: E402

# `d`: the same instant in two time zones (the two datetimes are equal and hash alike, and are displayed differently)
DATA = [
    {"g": 1, "arr": [1, 2, 3], "who": "A", "z": 0, "h": {"a": "ha", "b": {"c": "hc"}},
     "d": _dt.datetime(2024, 1, 1, 12, 0, tzinfo=_dt.timezone.utc)},
    {"g": "two", "arr": ["x", "y"], "who": "B", "z": 7, "h": {"a": 5, "b": {"c": 6}},
     "d": _dt.datetime(2024, 1, 1, 17, 30, tzinfo=_dt.timezone(_dt.timedelta(hours=5, minutes=30)))},
]


# ------------------------------------------------------------------ clock seam

_CLOCK = [float(T0)]


class _Meta(type):
    def __instancecheck__(cls, obj: Any) -> bool:
        return isinstance(obj, cls.__mro__[1])


class FakeDateTime(_dt.datetime, metaclass=_Meta):
    @classmethod
    def now(cls, tz: Any = None) -> Any:  # type: ignore[override]
        return _dt.datetime.fromtimestamp(_CLOCK[0], tz or _dt.timezone.utc).replace(tzinfo=None)


class FakeDate(_dt.date, metaclass=_Meta):
    @classmethod
    def today(cls) -> Any:  # type: ignore[override]
        return _dt.datetime.fromtimestamp(_CLOCK[0], _dt.timezone.utc).date()


class _FakeModule:
    datetime = FakeDateTime
    date = FakeDate
    timezone = _dt.timezone
    timedelta = _dt.timedelta


def install_clock() -> None:
    import liquid2.builtin.filters.misc as misc
    import liquid2.context as ctx

    ctx.datetime = _FakeModule  # type: ignore[attr-defined]
    misc.datetime = _FakeModule  # type: ignore[attr-defined]


def set_clock(t: float) -> None:
    _CLOCK[0] = float(t)


# ------------------------------------------------------------------ the shared world


class Boom(Exception):
    """A foreign exception raised by a data object."""


class FaultyMap(dict):  # type: ignore[type-arg]
    """A mapping whose k-th item access (counted across the whole data tree) raises Boom."""

    def __init__(self, d: dict[str, Any], counter: list[int], k: int) -> None:
        super().__init__({key: (FaultyMap(v, counter, k) if isinstance(v, dict) else v) for key, v in d.items()})
        self._counter = counter
        self._k = k

    def __getitem__(self, key: Any) -> Any:
        self._counter[0] += 1
        if self._counter[0] == self._k:
            raise Boom(f"fault at access {self._k}")
        return super().__getitem__(key)


TENANT_SOURCES = {"acme/footer": "(c) ACME {% increment n %}", "globex/footer": "(c) Globex {% increment n %}", "acme/base": "A<{% block b %}{% endblock %}>", "globex/base": "G<{% block b %}{% endblock %}>",
                  "acme/child": "{% extends 'base' %}{% block b %}a{% endblock %}", "globex/child": "{% extends 'base' %}{% block b %}g{% endblock %}"}
TENANT_PAGE = "{{ tenant }}|{% render 'footer' %}|{% include 'footer' %}|{% include 'child' %}"


def _tenant_loader() -> Any:
    from liquid2 import DictLoader
    from liquid2.builtin.loaders.mixins import CachingLoaderMixin

    class TenantLoader(CachingLoaderMixin, DictLoader):
        """Serves `<tenant>/<name>`, the tenant coming from the render context; namespace_key keeps tenants apart."""

        def __init__(self, templates: dict[str, str]) -> None:
            super().__init__(namespace_key="tenant")
            DictLoader.__init__(self, templates)

        def get_source(self, env: Any, template_name: str, *, context: Any = None, **kwargs: Any) -> Any:
            tenant = context.resolve("tenant", default="") if context else ""
            return super().get_source(env, f"{tenant}/{template_name}")

    return TenantLoader(dict(TENANT_SOURCES))


class World:
    def __init__(self) -> None:
        import liquid2
        from liquid2 import DictLoader
        from liquid2 import Environment

        self.liquid2 = liquid2
        self.loader_templates = {**PARTIALS, **{f"t-{k}": v for k, v in TEMPLATES.items()}}
        self.env = Environment(loader=DictLoader(self.loader_templates), globals={"site": "S"})
        self.templates = {k: self.env.from_string(v, name=k) for k, v in TEMPLATES.items()}
        self.extra: list[Any] = []
        # a second shared environment with auto-escape on (string literals are Markup there)
        self.env_ae = Environment(loader=DictLoader(self.loader_templates), globals={"site": "S"}, auto_escape=True)
        self.templates_ae = {k: self.env_ae.from_string(v, name=k) for k, v in TEMPLATES.items()}
        # a third one whose caching loader serves per-tenant sources, the tenant being a render variable
        self.env_tenant = Environment(loader=_tenant_loader())
        self.tenant_page = self.env_tenant.from_string(TENANT_PAGE, name="page")
        self._fs: Any = None  # a caching file-system loader over a private directory, built on first use

    # ---- file-backed templates: the harness writes the files, so it knows what a fresh loader would serve
    def fs(self) -> Any:
        if self._fs is None:
            import shutil
            import tempfile

            from liquid2 import CachingFileSystemLoader
            from liquid2 import Environment

            d = tempfile.mkdtemp(prefix="verif_c09_", dir=seams.sandbox_base())
            self._fs = {"dir": d, "env": Environment(loader=CachingFileSystemLoader(d)), "version": 0, "mtime": 1_600_000_000.0}
            self.fs_write(1, +0.0)
            import weakref

            weakref.finalize(self, shutil.rmtree, d, True)
        return self._fs

    def fs_write(self, version: int, dt: float) -> None:
        """Replace both files with content `version`; the new modification time is `dt` seconds after the previous one
        (negative: an older file is restored, as cp -p / rsync -t / a backup restore do)."""
        f = self._fs
        f["version"] = version
        f["mtime"] += dt
        for name, text in (("page", "page v%d|{%% include 'part' %%}" % version), ("part", "part v%d" % version)):
            p = os.path.join(f["dir"], name)
            with open(p, "w", encoding="utf-8") as fd:
                fd.write(text)
            os.utime(p, (f["mtime"], f["mtime"]))

    # every operation returns a JSON-able outcome
    def perform(self, op: tuple) -> Any:  # noqa: PLR0911, PLR0912
        from liquid2.exceptions import LiquidError

        kind = op[0]
        try:
            if kind == "render":
                _, name, di = op
                return ["ok", self.templates[name].render(**DATA[di])]
            if kind == "render_async":
                _, name, di = op
                return self._async(self.templates[name].render_async(**seams.wrap_data(DATA[di])))
            if kind == "render_ae":
                _, name, di = op
                return ["ok", self.templates_ae[name].render(**DATA[di])]
            if kind == "render_ae_async":
                _, name, di = op
                return self._async(self.templates_ae[name].render_async(**seams.wrap_data(DATA[di])))
            if kind == "tenant":
                _, tenant, mode = op
                if mode == "sync":
                    return ["ok", self.tenant_page.render(tenant=tenant)]
                return self._async(self.tenant_page.render_async(tenant=tenant))
            if kind == "fs_render":
                f = self.fs()
                want = ["ok", "page v%d|part v%d" % (f["version"], f["version"])]
                if op[1] == "sync":
                    got = ["ok", f["env"].get_template("page").render()]
                else:
                    got = self._async(self._fs_job(f["env"]))
                return got if got == want else ["stale", got, want]
            if kind == "fs_write":
                f = self.fs()
                self.fs_write(f["version"] + 1, float(op[1]))
                return ["ok", "written"]
            if kind == "analyze":
                a = self.templates[op[1]].analyze()
                return ["ok", [sorted(a.variables), sorted(a.filters), sorted(a.tags), sorted(a.globals)]]
            if kind == "from_string":
                _, name, di = op
                return ["ok", self.env.from_string(TEMPLATES[name]).render(**DATA[di])]
            if kind == "get_template":
                _, name, di = op
                return ["ok", self.env.get_template(f"t-{name}").render(**DATA[di])]
            if kind == "pkg_render":
                _, name, di = op
                # the package-level functions use the shared DEFAULT_ENVIRONMENT (no loader templates)
                return ["ok", self.liquid2.render(TEMPLATES[name], **DATA[di])]
            if kind == "other_env":
                return ["ok", self._other_env(op[1])]
            if kind == "fault":
                _, name, di, k = op
                counter = [0]
                data = {key: (FaultyMap(v, counter, k) if isinstance(v, dict) else v) for key, v in DATA[di].items()}
                try:
                    return ["ok", self.templates[name].render(**data)]
                except Boom:
                    return ["boom", k]
            if kind == "cancel":
                _, name, di, j = op
                return self._cancel(self.templates[name].render_async(**seams.wrap_data(DATA[di])), j)
        except LiquidError as e:
            return ["liquid", type(e).__name__]
        except Exception as e:  # noqa: BLE001
            return ["foreign", type(e).__name__, str(e)[:80]]
        raise ValueError(op)

    @staticmethod
    async def _fs_job(env: Any) -> str:
        t = await env.get_template_async("page")
        return await t.render_async()

    def _async(self, coro: Any) -> Any:
        from liquid2.exceptions import LiquidError

        from mc.vloop import VLoop

        kind, val = VLoop().run_all([coro])[0]
        if kind == "ok":
            return ["ok", val]
        if isinstance(val, LiquidError):
            return ["liquid", type(val).__name__]
        return ["foreign", type(val).__name__, str(val)[:80]]

    def _cancel(self, coro: Any, j: int) -> Any:
        from asyncio import events

        from mc.vloop import VLoop

        loop = VLoop()
        old = events._get_running_loop()
        events._set_running_loop(loop)
        try:
            task = loop.create_task(coro)
            for _ in range(j):
                if task.done() or not loop.step():
                    break
            if not task.done():
                task.cancel()
                n = 0
                while not task.done() and n < 100:
                    loop.step()
                    n += 1
            if task.cancelled():
                return ["cancelled", j]
            if task.exception() is not None:
                return ["exc", type(task.exception()).__name__]
            return ["ok", task.result()]
        finally:
            events._set_running_loop(old)
            loop.close()

    def _other_env(self, variant: int) -> str:
        """Configure ANOTHER environment in various ways and use it once."""
        from liquid2 import DictLoader
        from liquid2 import Environment
        from liquid2 import StrictUndefined
        from liquid2.token import WhitespaceControl

        if variant == 0:
            e2 = Environment(loader=DictLoader({"p": "OTHER", "base": "OTHERBASE"}), globals={"site": "X", "g": "G2"})
            e2.filters["date"] = lambda *a, **k: "D"
            e2.filters["upcase"] = lambda *a, **k: "U"
            e2.filters.pop("divided_by", None)
            e2.tags.pop("increment", None)
            self.extra.append(e2)
            return e2.from_string("{{ site }}{% include 'p' %}{{ 'x' | upcase }}").render()
        if variant == 1:
            cls = type("E2", (Environment,), {"loop_iteration_limit": 1, "output_stream_limit": 5, "shorthand_indexes": True,
                                              "suppress_blank_control_flow_blocks": False, "context_depth_limit": 1})
            e2 = cls(undefined=StrictUndefined, auto_escape=True, default_trim=WhitespaceControl.MINUS)
            self.extra.append(e2)
            try:
                return e2.from_string("{% for i in (1..3) %}{{ i }}{% endfor %}").render()
            except Exception as e:  # noqa: BLE001
                return type(e).__name__
        # variant 2: mutate the package-level default environment's *own* registries the documented way is
        # out of scope (that is configuring the shared environment itself); here: a template of another
        # environment with the same names rendered with conflicting data
        e2 = Environment(loader=DictLoader(dict(PARTIALS)))
        out = e2.from_string(TEMPLATES["counter"] + TEMPLATES["cycle"]).render(c=50, g="zz")
        self.extra.append(e2)
        return out


AE_NAMES = ("nowfilter", "todayfilter", "now", "today", "capture")
TENANT_OPS = [("tenant", t, m) for t in ("acme", "globex") for m in ("sync", "async")]
FS_OPS = [("fs_render", "sync"), ("fs_render", "async"), ("fs_write", 10), ("fs_write", -10)]  # (an unchanged mtime cannot be noticed by design)


def probe_ops() -> list[tuple]:
    return (
        [("render", name, 0) for name in TNAMES]
        + [("render_async", name, 1) for name in ("counter", "cycle", "include", "drops", "nowfilter")]
        + [("render_ae", name, 0) for name in AE_NAMES]
        + [("render_ae_async", "nowfilter", 1)]
        + TENANT_OPS
        + FS_OPS[:2]
    )


# ------------------------------------------------------------------ fresh-interpreter baselines

_BASE: dict[str, Any] = {}


def _bkey(op: tuple, clock: float) -> str:
    return json.dumps([list(op), clock])


def baseline_subprocess(op: tuple, clock: float) -> Any:
    code = (
        "import sys, json; sys.path.insert(0, %r)\n"
        "from checks import c09\n"
        "c09.install_clock(); c09.set_clock(%r)\n"
        "w = c09.World()\n"
        "print('@@' + json.dumps(w.perform(tuple(json.loads(%r)))))\n"
    ) % (os.path.dirname(os.path.dirname(os.path.abspath(__file__))), clock, json.dumps(list(op)))
    env = dict(os.environ, PYTHONHASHSEED="0")
    r = subprocess.run([sys.executable, "-c", code], capture_output=True, text=True, env=env, timeout=120)
    for line in r.stdout.splitlines():
        if line.startswith("@@"):
            return json.loads(line[2:])
    raise RuntimeError(f"baseline failed for {op}: {r.stderr[-500:]}")


def compute_baselines(ops: list[tuple], clocks: list[float]) -> None:
    todo = []
    for op in ops:
        if op[0] in ("advance",) or op[0].startswith("fs_"):
            continue
        for c in clocks:
            k = _bkey(op, c)
            if k not in _BASE:
                todo.append((op, c))
    with ThreadPoolExecutor(max_workers=16) as ex:
        for (op, c), out in zip(todo, ex.map(lambda oc: baseline_subprocess(*oc), todo)):
            _BASE[_bkey(op, c)] = out


# ------------------------------------------------------------------ alphabet


def fault_free_accesses(name: str, di: int) -> int:
    counter = [0]
    data = {key: (FaultyMap(v, counter, -1) if isinstance(v, dict) else v) for key, v in DATA[di].items()}
    w = World()
    try:
        w.templates[name].render(**data)
    except Exception:  # noqa: BLE001
        pass
    return counter[0]


def alphabet(tier: str) -> list[tuple]:
    ops: list[tuple] = []
    for name in TNAMES:
        ops.append(("render", name, 0))
        ops.append(("render_async", name, 1))
    for name in ("counter", "cycle", "offset", "include", "extends", "macro"):
        ops.append(("render", name, 1))
        ops.append(("analyze", name))
        ops.append(("from_string", name, 0))
        ops.append(("get_template", name, 1))
    for name in ("counter", "cycle", "nowfilter", "now", "capture"):
        ops.append(("pkg_render", name, 0))
    for v in (0, 1, 2):
        ops.append(("other_env", v))
    for name in AE_NAMES:
        ops.append(("render_ae", name, 0))
    ops.append(("render_ae_async", "nowfilter", 1))
    ops.extend(TENANT_OPS)
    ops.extend(FS_OPS)
    ops.append(("advance",))
    n = fault_free_accesses("drops", 0)
    for k in range(1, n + 1):
        ops.append(("fault", "drops", 0, k))
    for j in range(1, 7):
        ops.append(("cancel", "drops", 0, j))
        ops.append(("cancel", "include", 0, j))
    return ops


def reduced_alphabet() -> list[tuple]:
    return [
        ("render", "counter", 0), ("render", "cycle", 0), ("render", "offset", 0), ("render", "failing", 0),
        ("render", "nowfilter", 0), ("render", "todayfilter", 0), ("render", "now", 0), ("render_async", "include", 1),
        ("render", "extends", 0), ("render", "macro", 0), ("analyze", "extends"), ("pkg_render", "nowfilter", 0),
        ("other_env", 0), ("advance",), ("fault", "drops", 0, 2), ("cancel", "drops", 0, 2),
        ("render_ae", "nowfilter", 0), ("tenant", "acme", "async"), ("tenant", "globex", "async"),
        ("fs_render", "sync"), ("fs_write", -10), ("render", "macro_render", 0),
    ]  # fmt: skip


# ------------------------------------------------------------------ history execution


def run_history(hist: tuple, res: ShardResult | None) -> list[tuple[str, Any, Any, Any]]:
    """Execute one history on fresh shared objects + probe. Returns violations (sig, where, expected, observed)."""
    out: list[tuple[str, Any, Any, Any]] = []
    install_clock()
    clock = float(T0)
    set_clock(clock)
    w = World()
    stateful = 0
    for i, op in enumerate(hist):
        if op[0] == "advance":
            clock += HOUR
            set_clock(clock)
            continue
        got = w.perform(op)
        if res is not None:
            res.transitions += 1
        if op[0] in ("render", "render_async", "fault", "cancel", "get_template", "from_string", "pkg_render", "render_ae", "render_ae_async", "tenant", "fs_render"):
            stateful += 1
        if op[0].startswith("fs_"):
            # self-checking: the harness wrote the files, a fresh loader would serve exactly their current content
            if got[0] == "stale":
                out.append((f"C09:step-differs:{_opname(op)}", {"step": i, "op": list(op), "clock": clock}, got[2], got[1]))
            continue
        want = _BASE[_bkey(op, clock)]
        if op[0] == "cancel" and got[0] == "cancelled":
            continue  # a cancelled call has no result to compare; what matters is what follows
        if got != want:
            out.append((f"C09:step-differs:{_opname(op)}", {"step": i, "op": list(op), "clock": clock}, want, got))
    # probe: at the current clock and one hour later
    for dt in (0, HOUR):
        set_clock(clock + dt)
        for op in probe_ops():
            if dt and not _time_dependent(op):
                continue  # one hour later only what can depend on the clock is probed again
            got = w.perform(op)
            if res is not None:
                res.transitions += 1
            if op[0].startswith("fs_"):
                if got[0] == "stale":
                    out.append((f"C09:probe-differs:{_opname(op)}", {"probe": list(op), "clock": clock + dt, "after": [list(o) for o in hist]}, got[2], got[1]))
                continue
            want = _BASE[_bkey(op, clock + dt)]
            if got != want:
                out.append((f"C09:probe-differs:{_opname(op)}", {"probe": list(op), "clock": clock + dt, "after": [list(o) for o in hist]}, want, got))
    if res is not None:
        res.evaluations += 1
        res.states.add(h64([clock, [o[0] for o in hist], not out]))
        if len(hist) >= 2 and stateful:
            res.nontrivial.add(h64([list(o) for o in hist]))
    return out


def _time_dependent(op: tuple) -> bool:
    return len(op) > 1 and op[1] in ("now", "today", "nowfilter", "todayfilter")


def _opname(op: tuple) -> str:
    return op[0] + (":" + str(op[1]) if len(op) > 1 and isinstance(op[1], str) else "")


# ------------------------------------------------------------------ concurrent renders of one Template (E4)


LOAD_GLOBALS = [{"who": "alice"}, {"who": "bob"}, None]
LOAD_TEMPLATES = {"greet": "Hello, {{ who }}!{% include 'sig' %}", "sig": "[{{ who }}]"}


def schedule_sets(tier: str) -> list[tuple]:
    names = ["counter", "cycle", "include", "drops", "capture", "offset", "extends"]
    sets = [(n, (0, 1)) for n in names] + [(n, (0, 0)) for n in ("drops", "include")]
    # concurrent first loads of one name, each caller with its own globals, on a caching loader whose lookup suspends
    sets += [("load:greet", (0, 1)), ("load:greet", (0, 2)), ("load:greet", (1, 1))]
    # (three concurrent renders of one template were tried for the thorough tier and did not complete within its time
    #  allowance; the thorough tier deepens the histories instead: length 4 over the reduced alphabet)
    return sets


def _slow_env() -> Any:
    import asyncio

    from liquid2 import CachingDictLoader
    from liquid2 import Environment

    class Slow(CachingDictLoader):
        async def get_source_async(self, env: Any, template_name: str, *, context: Any = None, **kw: Any) -> Any:
            await asyncio.sleep(0)
            return self.get_source(env, template_name, context=context, **kw)

    return Environment(loader=Slow(dict(LOAD_TEMPLATES)))


def check_load_schedules(name: str, gis: tuple, res: ShardResult | None, max_runs: int) -> list[tuple[str, Any, Any, Any]]:
    from liquid2 import DictLoader
    from liquid2 import Environment

    from mc.vloop import VLoop
    from mc.vloop import explore

    out: list[tuple[str, Any, Any, Any]] = []
    tname = name.split(":", 1)[1]
    expected = [["ok", Environment(loader=DictLoader(dict(LOAD_TEMPLATES))).get_template(tname, globals=LOAD_GLOBALS[gi]).render()] for gi in gis]
    seen: set[str] = set()

    async def job(env: Any, g: Any) -> str:
        t = await env.get_template_async(tname, globals=g)
        return await t.render_async()

    def run(loop: VLoop) -> Any:
        env = _slow_env()
        return loop.run_all([job(env, LOAD_GLOBALS[gi]) for gi in gis])

    def on_run(loop: VLoop, result: Any) -> None:
        got = [["ok", v] if k == "ok" else ["exc", type(v).__name__] for k, v in result]
        if res is not None:
            res.evaluations += 1
            res.transitions += loop.steps
            res.states.add(h64([name, gis, loop.choices]))
            if any(loop.choices):
                res.nontrivial.add(h64([name, gis, loop.choices]))
            res.outcomes.add(h64(got))
        for i, (e, g) in enumerate(zip(expected, got)):
            if e != g and f"{i}" not in seen:
                seen.add(f"{i}")
                out.append((f"C09:concurrent-load-differs:{tname}", {"template": name, "data": list(gis), "schedule": list(loop.choices), "task": i}, e, g))

    stats = explore(run, max_runs=max_runs, on_run=on_run)
    if res is not None:
        res.count("schedules", stats["schedules"])
        if stats["capped"]:
            res.capped = True
    return out


def check_schedules(name: str, dis: tuple, res: ShardResult | None, max_runs: int) -> list[tuple[str, Any, Any, Any]]:
    from mc.vloop import VLoop
    from mc.vloop import explore

    if name.startswith("load:"):
        return check_load_schedules(name, dis, res, max_runs)
    out: list[tuple[str, Any, Any, Any]] = []
    install_clock()
    set_clock(T0)
    expected = [_BASE[_bkey(("render", name, di), float(T0))] for di in dis]
    seen: set[str] = set()

    def run(loop: VLoop) -> Any:
        w = World()
        t = w.templates[name]
        return loop.run_all([t.render_async(**seams.wrap_data(DATA[di], yields=2)) for di in dis])

    def on_run(loop: VLoop, result: Any) -> None:
        from liquid2.exceptions import LiquidError

        got = [["ok", v] if k == "ok" else ["liquid", type(v).__name__] if isinstance(v, LiquidError) else ["foreign", type(v).__name__] for k, v in result]
        if res is not None:
            res.evaluations += 1
            res.transitions += loop.steps
            res.states.add(h64([name, dis, loop.choices]))
            if any(loop.choices):
                res.nontrivial.add(h64([name, dis, loop.choices]))
            res.outcomes.add(h64(got))
        for i, (e, g) in enumerate(zip(expected, got)):
            if e != g and f"{i}" not in seen:
                seen.add(f"{i}")
                out.append((f"C09:concurrent-render-differs:{name}", {"template": name, "data": list(dis), "schedule": list(loop.choices), "task": i}, e, g))

    stats = explore(run, max_runs=max_runs, on_run=on_run)
    if res is not None:
        res.count("schedules", stats["schedules"])
        if stats["capped"]:
            res.capped = True
    return out


# ------------------------------------------------------------------ harness interface

_PLAN: dict[str, Any] = {}


def _prepare(tier: str) -> None:
    if _PLAN.get("tier") == tier:
        return
    ops = alphabet(tier)
    red = reduced_alphabet()
    d_full = 2
    d_red = 3 if tier == "quick" else 4
    clocks = [float(T0 + i * HOUR) for i in range(0, d_red + 2)]
    compute_baselines(ops + probe_ops() + red + [("render", n, d) for n in TNAMES for d in (0, 1)], clocks)
    _PLAN.update(tier=tier, ops=ops, red=red, d_full=d_full, d_red=d_red)


def plan(tier: str, seed: int):
    _prepare(tier)
    ops, red = _PLAN["ops"], _PLAN["red"]
    shards: list[Any] = []
    # full alphabet: all histories of length <= 2 (sharded by first op)
    for i in range(len(ops)):
        shards.append(("full", tier, i))
    n_full = len(ops) + len(ops) ** 2
    # reduced alphabet: all histories of length 3 (.. d_red), sharded by first two ops
    n_red = 0
    for i in range(len(red)):
        for j in range(len(red)):
            shards.append(("red", tier, i, j))
    for L in range(3, _PLAN["d_red"] + 1):
        n_red += len(red) ** L
    sets = schedule_sets(tier)
    for si in range(len(sets)):
        shards.append(("sched", tier, si))
    meta = {
        "space_size": n_full + n_red + len(sets),
        "bounds": {"full_alphabet": len(ops), "full_depth": 2, "reduced_alphabet": len(red), "reduced_depth": _PLAN["d_red"],
                   "probe_ops": len(probe_ops()) * 2, "baselines": len(_BASE), "schedule_sets": len(sets)},
        "subspaces": {"histories-full-alphabet": n_full, "histories-reduced-alphabet": n_red, "schedule-sets": len(sets)},
    }
    return shards, meta


def run_shard(shard) -> ShardResult:
    res = ShardResult()
    kind, tier = shard[0], shard[1]
    _prepare(tier)
    ops, red = _PLAN["ops"], _PLAN["red"]

    def do(hist: tuple) -> None:
        res.cases += 1
        for sig, where, exp, obs in run_history(hist, res):
            res.violation(sig, {"kind": "history", "tier": tier, "history": [list(o) for o in hist], **where}, exp, obs, repro=_repro(hist))

    if kind == "full":
        first = ops[shard[2]]
        do((first,))
        for second in ops:
            do((first, second))
        if shard[2] % 9 == 0:
            res.samples.append({"history": [list(first), list(ops[(shard[2] * 7) % len(ops)])], "then": "probe of all templates at t and t+1h"})
    elif kind == "red":
        a, b = red[shard[2]], red[shard[3]]
        for L in range(3, _PLAN["d_red"] + 1):
            for rest in itertools.product(red, repeat=L - 2):
                do((a, b) + rest)
    else:
        name, dis = schedule_sets(tier)[shard[2]]
        res.cases += 1
        for sig, where, exp, obs in check_schedules(name, dis, res, 50000 if tier == "quick" else 500000):
            res.violation(sig, {"kind": "sched", "tier": tier, **where}, exp, obs)
        res.samples.append({"concurrent_renders_of": name, "data": list(dis)})
    return res


def _repro(hist: tuple) -> str:
    return (
        "# stand-alone reproduction (C09): run this history on shared objects and compare with fresh-process baselines\n"
        "import sys; sys.path.insert(0, '/verif')\nfrom checks import c09\n"
        f"hist = {tuple(hist)!r}\n"
        "c09._prepare('quick')\nprint(c09.run_history(hist, None))\n"
    )


def replay(case: dict[str, Any]) -> list[dict[str, Any]]:
    res = ShardResult()
    _prepare(case.get("tier", "quick"))
    if case["kind"] == "history":
        hist = tuple(tuple(o) for o in case["history"])
        # baselines for ops possibly outside the prepared alphabets
        compute_baselines([o for o in hist], [float(T0 + i * HOUR) for i in range(0, len(hist) + 2)])
        for sig, where, exp, obs in run_history(hist, None):
            res.violation(sig, case, exp, obs)
    else:
        for sig, where, exp, obs in check_schedules(case["template"], tuple(case["data"]), None, 10**7):
            res.violation(sig, case, exp, obs)
    return res.violations
