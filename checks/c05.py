"""C05 — templates cannot reach Python attributes of context objects.

Context objects of several shapes (plain instance, instance with properties and callables, Mapping drop exposing a
strict subset of keys, Sequence drop, class object, callable object, module object, bound method, plus dict / list /
str / int controls) hold a SECRET only in Python attributes, class attributes, property results, method results,
__dict__, __doc__ and the globals of their methods. NAME ranges over every attribute name of those objects, dunder
names included. Sites = every place a template can put a name: path segments (dot, quoted bracket, variable
bracket, two-segment chains), first / last / size, every filter that takes a key or a lambda (string and lambda form),
include by variable, loop / tablerow / block helper keys, translate messages with %(NAME)s, conditions, default,
json, size, join, date; sync and async.
Oracle: (1) the SECRET marker never occurs in the output nor in any argument handed to a filter (every registered
filter is wrapped to record its inputs); (2) the attribute-access log kept by the objects' __getattribute__
contains only names of the fixed protocol set - never a name the template supplied.
"""

from __future__ import annotations

import itertools
import types
from collections.abc import Mapping
from collections.abc import Sequence
from typing import Any

from liquid2.exceptions import LiquidError

from mc import impl
from mc.harness import ShardResult
from mc.harness import chunks
from mc.harness import h64
from mc.vloop import run_solo

ID = "C05"
LEVEL = "exploration"
ENGINES = ["E1 spaces", "attribute-logging objects"]
RULE = (
    "sites x attribute names x object shapes x {sync, async}; non-trivial when the object is not a control value and "
    "NAME is a real attribute of it (the template really aimed at something that exists); distinct by (site, name, shape)"
)
LEVEL_TEXT = (
    "Bounded-exhaustive exploration of every syntactic place a template can put a name x every attribute name of the "
    "context objects x object shapes, on the real renderer, with taint-by-construction (a marker that exists only in "
    "Python attributes) and an attribute-access log kept by the objects themselves."
)
LEVEL_NOTE = (
    "Special-method lookups by the interpreter (len(), obj[key], iteration, str()) are the documented protocol and are "
    "not attribute reads; the protocol set of explicitly probed names is fixed in ALLOWED; shapes are those listed."
)
TECHNIQUE = "bounded-exhaustive enumeration of name-bearing sites x attribute names x object shapes with a taint marker and an attribute-access log"
ASSUMPTIONS = ["a value that exists only in Python attributes can reach the output only through an attribute read"]

MARK = "S3CR3T"
GLOBAL_SECRET = MARK + "-module-global"

ALLOWED = {
    "__liquid__", "__html__", "__getitem_async__", "__getitem__", "__class__", "__len__", "__iter__", "__str__", "__contains__",
    "__eq__", "__hash__", "__int__", "__float__", "__bool__", "__reversed__", "__repr__", "__index__", "__format__", "__next__",
    "force_liquid_default", "__lt__", "__gt__", "__le__", "__ge__", "__ne__", "__radd__", "__add__", "__mod__", "__rmod__",
    "__array__", "__array_interface__", "__array_struct__", "__fspath__", "__await__", "__aiter__", "__anext__", "__trunc__",
    "__round__", "__floor__", "__ceil__", "__abs__", "__neg__", "__complex__", "__bytes__", "__sizeof__", "__length_hint__",
    "__reduce_ex__", "__reduce__", "__copy__", "__deepcopy__", "__getstate__",
    "__class_getitem__",  # the interpreter's own lookup for subscripting a class object (obj[key] on a type)
}  # fmt: skip

LOG: list[tuple[str, str]] = []


class Logged:
    """Base: every explicit attribute read is logged (shape, name)."""

    _shape = "?"

    def __getattribute__(self, name: str) -> Any:
        LOG.append((object.__getattribute__(self, "_shape"), name))
        return object.__getattribute__(self, name)


class Plain(Logged):
    """doc S3CR3T-doc"""

    _shape = "plain"
    cls_secret = MARK + "-class-attr"

    def __init__(self) -> None:
        self.secret = MARK + "-instance-attr"
        self._private = MARK + "-private"
        self.token = MARK + "-token"
        self.name = MARK + "-name"
        self.items = MARK + "-items-attr"

    def method(self) -> str:
        return MARK + "-method-result" + GLOBAL_SECRET

    @property
    def prop(self) -> str:
        return MARK + "-property"

    def __str__(self) -> str:
        return "plain-object"

    __repr__ = __str__


class Reprful(Plain):
    """An object whose repr() shows its fields (as a dataclass's does) while its string form does not: the string form
    is the documented conversion, the repr is not."""

    _shape = "reprful"

    def __repr__(self) -> str:
        return "Reprful(secret='" + MARK + "-repr')"

    def __hash__(self) -> int:
        return 7

    def __eq__(self, other: object) -> bool:
        return self is other


class Itemsful(Logged):
    """Not a Mapping and not a Sequence, but its class has methods named like theirs (a session object, a header
    list, an ORM row): having such a method does not make the object a mapping, and a template must not get it called."""

    _shape = "itemsful"

    def __init__(self) -> None:
        self.secret = MARK + "-instance-attr"

    def items(self) -> Any:
        return [("tok", MARK + "-items-result")]

    def keys(self) -> Any:
        return [MARK + "-keys-result"]

    def values(self) -> Any:
        return [MARK + "-values-result"]

    def get(self, key: Any, default: Any = None) -> Any:
        return MARK + "-get-result"

    def first(self) -> Any:
        return MARK + "-first-result"

    def last(self) -> Any:
        return MARK + "-last-result"

    def size(self) -> Any:
        return MARK + "-size-result"

    def __str__(self) -> str:
        return "itemsful-object"

    __repr__ = __str__


class MapDrop(Logged, Mapping):  # type: ignore[type-arg]
    _shape = "mapdrop"
    cls_secret = MARK + "-class-attr"

    def __init__(self) -> None:
        self._d = {"public": "PUBLIC", "n": 1}
        self.secret = MARK + "-instance-attr"

    def method(self) -> str:
        return MARK + "-method-result"

    @property
    def prop(self) -> str:
        return MARK + "-property"

    def __getitem__(self, k: Any) -> Any:
        return object.__getattribute__(self, "_d")[k]

    def __len__(self) -> int:
        return 2

    def __iter__(self):  # noqa: ANN204
        return iter(object.__getattribute__(self, "_d"))

    def __str__(self) -> str:
        return "map-drop"

    __repr__ = __str__


class SeqDrop(Logged, Sequence):  # type: ignore[type-arg]
    _shape = "seqdrop"
    cls_secret = MARK + "-class-attr"

    def __init__(self) -> None:
        self.secret = MARK + "-instance-attr"

    def method(self) -> str:
        return MARK + "-method-result"

    @property
    def prop(self) -> str:
        return MARK + "-property"

    def __getitem__(self, i: Any) -> Any:
        return ["s0", "s1"][i]

    def __len__(self) -> int:
        return 2

    def __str__(self) -> str:
        return "seq-drop"

    __repr__ = __str__


class _Meta(type):
    def __getattribute__(cls, name: str) -> Any:
        LOG.append(("classobj", name))
        return type.__getattribute__(cls, name)

    def __str__(cls) -> str:
        return "class-object"

    __repr__ = __str__


class ClassObj(metaclass=_Meta):
    """doc S3CR3T-doc"""

    secret = MARK + "-class-attr"
    cls_secret = MARK + "-class-attr"

    def method(self) -> str:
        return MARK


class CallableObj(Logged):
    _shape = "callable"

    def __init__(self) -> None:
        self.secret = MARK + "-func-attr"

    def __call__(self, *a: Any, **k: Any) -> str:
        return MARK + "-call-result"

    def __str__(self) -> str:
        return "callable-object"

    __repr__ = __str__


class ModuleObj(types.ModuleType):
    def __getattribute__(self, name: str) -> Any:
        LOG.append(("module", name))
        return types.ModuleType.__getattribute__(self, name)

    def __str__(self) -> str:
        return "module-object"

    __repr__ = __str__


class Lazy:
    """An item value that happens to be awaitable (a session handle, a future, a lazily loaded record). The engine may
    print it (its __str__) but must not await it: what awaiting returns is held by no item and no string conversion."""

    def __await__(self):  # noqa: ANN204
        return iter(())  # not reached: the generator below is what a caller of __await__ would drive

    def __str__(self) -> str:
        return "lazy-handle"

    __repr__ = __str__


def _lazy() -> Any:
    class L(Lazy):
        def __await__(self):  # noqa: ANN204
            if False:
                yield None
            return MARK + "-awaited-result"

    return L()


def make_objects() -> dict[str, Any]:
    mod = ModuleObj("m" + "odule")
    types.ModuleType.__setattr__(mod, "secret", MARK + "-module-attr")
    plain = Plain()
    return {
        "plain": plain,
        "reprful": Reprful(),
        "itemsful": Itemsful(),
        "mapdrop": MapDrop(),
        "seqdrop": SeqDrop(),
        "classobj": ClassObj,
        "callable": CallableObj(),
        "module": mod,
        "boundmethod": object.__getattribute__(plain, "method"),
        "holder": {"lazy": _lazy(), "public": "PUBLIC", "n": 1, "first": _lazy(), "items": [_lazy()]},
        "holderlist": [_lazy(), _lazy()],
        "dict": {"public": "PUBLIC", "n": 1},
        "list": ["l0", "l1"],
        "str": "text",
        "int": 7,
    }


NAMES = [
    "secret", "prop", "method", "cls_secret", "_private", "token", "name", "items", "_d", "_shape",
    "__class__", "__dict__", "__init__", "__globals__", "__doc__", "__module__", "__subclasses__", "__mro__", "__name__", "__self__",
    "__func__", "__code__", "__closure__", "__builtins__", "__getattribute__", "__call__", "__bases__", "__wrapped__",
    "public", "n", "lazy", "first", "last", "size", "keys", "values", "get", "format", "upper", "real", "denominator", "__len__", "0", "-1",
]  # fmt: skip


def sites(nm: str) -> list[str]:
    q = "'" + nm + "'"
    s = [
        "{{ o." + nm + " }}" if not nm[0].isdigit() and not nm.startswith("-") else "{{ o[" + nm + "] }}",
        "{{ o[" + q + "] }}",
        "{{ o[v] }}",
        "{{ o[v] | json }}",
        "{% assign a = o[" + q + "] %}{{ a }}{{ a | size }}",
        "{% if o[" + q + "] %}yes{% endif %}{% if o[" + q + "] == 'x' %}eq{% endif %}",
        "{% if o contains v %}c{% endif %}{% if v in o %}i{% endif %}",
        "{% for x in o[" + q + "] %}{{ x }}{% endfor %}",
        "{% case o[" + q + "] %}{% when 'x' %}w{% else %}e{% endcase %}",
        "{{ '${o[" + q + "]}' }}",
        "{{ o[" + q + "] if true else 1 }}",
        "{% include v %}",
        "{% for x in objs %}{{ forloop[" + q + "] }}{{ forloop.parentloop[" + q + "] }}{% endfor %}",
        "{% tablerow x in objs %}{{ tablerowloop[" + q + "] }}{% endtablerow %}",
        "{% block b %}{{ block[" + q + "] }}{% endblock %}",
        "{{ '%(" + nm + ")s %(o)s' | t: o: o }}",
        "{{ 'a %(x)s' | gettext: x: o[" + q + "] }}",
        "{% translate x: o[" + q + "] %}T {{ x }}{% endtranslate %}",
        "{% with w: o[" + q + "] %}{{ w }}{% endwith %}",
        "{% render 'show', p: o[" + q + "] %}{% include 'show', p: o[" + q + "] %}",
        "{% macro m p %}{{ p[" + q + "] }}{% endmacro %}{% call m o %}",
        "{% cycle o[" + q + "], 'b' %}",
        "{{ (o[" + q + "]..3) }}",
    ]
    for f in ("map", "where", "reject", "find", "find_index", "has", "sort", "sort_natural", "sort_numeric", "sum", "uniq", "compact"):
        s.append("{{ objs | " + f + ": " + q + " | json }}")
        s.append("{{ o | " + f + ": " + q + " | json }}")
        if not nm[0].isdigit() and not nm.startswith("-"):
            s.append("{{ objs | " + f + ": x => x." + nm + " | json }}")
            s.append("{{ objs | " + f + ": x => x[" + q + "] | json }}")
    for f in ("where", "find", "has", "reject", "find_index"):
        s.append("{{ objs | " + f + ": " + q + ", 'x' | json }}")
    return s


def object_sites() -> list[str]:
    """Sites that hand the object itself to filters and tags (no NAME)."""
    fs = ["default: 'd'", "json", "size", "join: ','", "date: '%Y'", "first", "last", "upcase", "append: 'x'", "escape", "strip_html", "sort", "uniq", "compact",
          "reverse", "sum", "concat: objs", "slice: 0, 2", "split: ','", "truncate: 3", "url_encode", "plus: 1", "abs", "round", "t", "gettext", "safe",
          "base64_encode", "currency", "decimal", "datetime", "unit: 'meter'"]  # fmt: skip
    s = ["{{ o }}", "{{ o.first }}{{ o.last }}{{ o.size }}", "{% for x in o %}{{ x }}{% endfor %}", "{% if o %}t{% endif %}{% if o == o %}e{% endif %}{% if o < 1 %}l{% endif %}",
         "{{ o if o else o }}", "{% assign a = o %}{{ a }}", "{% capture c %}{{ o }}{% endcapture %}{{ c }}", "{% cycle o, o %}", "{% echo o %}",
         "{% render 'show' with o as p %}{% render 'show' for o as p %}{% include 'show' with o as p %}", "{% tablerow x in o %}{{ x }}{% endtablerow %}",
         "{{ 'x${o}y' }}", "{% case o %}{% when o %}same{% endcase %}", "{{ (o..o) }}", "{% include o %}"]  # fmt: skip
    s += ["{{ o | " + f + " }}" for f in fs]
    # a keyword argument named like the objects the engine itself hands to filters must not replace them
    s += ["{{ 'x' | escape: environment: o }}", "{{ objs | join: '-', environment: o }}", "{{ 'now' | date: '%Y', environment: o }}", "{{ 'hello' | t: context: o }}",
          "{{ objs | map: i => i, context: o | size }}", "{{ 1 | currency: context: o }}", "{{ 'a' | gettext: context: o, environment: o }}", "{{ 'x' | strip_html: environment: o }}"]
    s += ["{{ objs | " + f + " | json }}" for f in ("map: 'public'", "sort", "join", "first", "compact", "uniq", "sum", "reverse | first")]
    # the object used as a KEY of a lookup that fails (what an undefined reports about the path must not show more of the
    # object than its string form)
    s += ["{{ hh[o] }}", "{{ hh[o].x }}", "{{ hh.k[o] }}{{ objs[o] }}", "{{ o[o] }}{{ o[o].x.y }}", "{{ hh[o] | default: 'd' }}{{ hh[o] | upcase }}", "{% assign a = hh[o].x %}{{ a }}{{ a | json }}",
          "{{ nosuch[o] }}{{ [o] }}{{ [o].x }}", "{% for x in hh[o] %}{% endfor %}{% if hh[o] %}{% endif %}{{ hh[o] | size }}"]
    return s


def _scan(x: Any, depth: int = 0) -> bool:
    """Does the marker occur in a plain value handed to a filter?"""
    if isinstance(x, str):
        return MARK in x
    if depth > 4:
        return False
    if isinstance(x, (Logged, ModuleObj, _Meta)) or x is ClassObj:
        return False  # the object itself may be passed around; its attributes may not be read
    if isinstance(x, dict):
        return any(_scan(k, depth + 1) or _scan(v, depth + 1) for k, v in x.items())
    if isinstance(x, (list, tuple)):
        return any(_scan(v, depth + 1) for v in x)
    if isinstance(x, types.MethodType):
        return False
    return False


_ENV: dict[str, Any] = {}
_SEEN_FILTER_INPUT: list[tuple[str, str]] = []


def env(novalidate: bool = False, undefined: str | None = None) -> Any:
    """`novalidate`: an environment that skips the parse-time validation of filter arguments (a documented option;
    what a template can reach at render time must not depend on it)."""
    key = ("nv" if novalidate else "e") + (undefined or "")
    if key in _ENV:
        return _ENV[key]
    from liquid2.undefined import DebugUndefined
    from liquid2.undefined import StrictUndefined

    e = impl.make_env(templates={"show": "[{{ p }}]"}, shopify=True, validate=not novalidate, undefined={"debug": DebugUndefined, "strict": StrictUndefined, None: None}[undefined])
    for name, f in list(e.filters.items()):
        e.filters[name] = _wrap(name, f)
    _ENV[key] = e
    return e


def _wrap(name: str, f: Any) -> Any:
    class W:
        with_context = getattr(f, "with_context", False)
        with_environment = getattr(f, "with_environment", False)

        def __call__(self, left: Any, *a: Any, **k: Any) -> Any:
            for v in (left, *a, *[val for key, val in k.items() if key not in ("context", "environment")]):
                if _scan(v):
                    _SEEN_FILTER_INPUT.append((name, repr(v)[:80]))
            return f(left, *a, **k)

    w = W()
    if hasattr(f, "validate"):
        w.validate = f.validate  # type: ignore[attr-defined]
    return w


def check_site(site: str, nm: str | None, shape: str, mode: str, res: ShardResult | None) -> list[tuple[str, Any, Any]]:
    out: list[tuple[str, Any, Any]] = []
    objs = make_objects()
    o = objs[shape]
    data = {"o": o, "objs": [o, objs["dict"], o], "v": nm if nm is not None else "secret", "hh": {"k": {"public": 1}, "public": "P"}}
    flags = mode.split(":")[1:]
    e = env("nv" in flags, "debug" if "debug" in flags else "strict" if "strict" in flags else None)
    mode = mode.split(":")[0]
    try:
        t = e.from_string(site)
    except LiquidError:
        return out
    LOG.clear()
    _SEEN_FILTER_INPUT.clear()
    rendered = ""
    try:
        if mode == "sync":
            rendered = t.render(**data)
        else:
            kind, val = run_solo(t.render_async(**data))
            if kind == "ok":
                rendered = val
            elif not isinstance(val, LiquidError):
                raise val
    except LiquidError:
        pass
    except Exception as x:  # noqa: BLE001  (totality is C02's subject)
        if res is not None:
            res.count("foreign:" + type(x).__name__)
    if res is not None:
        res.evaluations += 1
        real = nm is not None and shape not in ("dict", "list", "str", "int") and _has_attr(o, nm)
        if real or (nm is None and shape not in ("dict", "list", "str", "int")):
            res.nontrivial.add(h64([site, nm, shape, mode]))
        res.outcomes.add(h64([bool(rendered), shape]))
    if MARK in rendered:
        out.append((f"C05:secret-in-output:{shape}", "no attribute value in the output", rendered[:200]))
    if _SEEN_FILTER_INPUT:
        out.append((f"C05:secret-handed-to-filter:{shape}:{_SEEN_FILTER_INPUT[0][0]}", "no attribute value handed to a filter", _SEEN_FILTER_INPUT[:3]))
    # a Mapping is iterated through its items() / keys() / values() methods: that is the documented iteration protocol
    mapping_ok = {"items", "keys", "values"} if shape in ("mapdrop", "dict") else set()
    bad = sorted({n for s, n in LOG if n not in ALLOWED and n not in mapping_ok})
    if bad:
        supplied = nm in bad if nm else False
        out.append((f"C05:attribute-read:{shape}:{'template-supplied-name' if supplied else bad[0]}", "only protocol attributes are read", bad[:6]))
    return out


def _has_attr(o: Any, nm: str) -> bool:
    try:
        if isinstance(o, Logged):
            object.__getattribute__(o, nm)
        elif isinstance(o, ModuleObj):
            types.ModuleType.__getattribute__(o, nm)
        elif o is ClassObj:
            type.__getattribute__(o, nm)
        else:
            getattr(o, nm)
        return True
    except AttributeError:
        return False


# ------------------------------------------------------------------ engine drops (forloop / tablerowloop / block)

# The documented keys (docs/tag_reference.md, docs/optional_tags.md). Every other attribute name of the drop objects —
# slots, methods, dunders — must behave as undefined from a template.
DOCUMENTED = {
    "forloop": {"name", "length", "index", "index0", "rindex", "rindex0", "first", "last", "parentloop"},
    "tablerowloop": {"length", "index", "index0", "rindex", "rindex0", "first", "last", "col", "col0", "col_first", "col_last", "row"},
    "block": {"super"},
}
DROP_HOSTS = {
    "forloop": "{% for x in objs %}@{% endfor %}",
    "forloop.parentloop": "{% for y in objs limit: 1 %}{% for x in objs %}@{% endfor %}{% endfor %}",
    "tablerowloop": "{% tablerow x in objs cols: 2 %}@{% endtablerow %}",
    "block": "{% block b %}@{% endblock %}",
}


def drop_names() -> dict[str, list[str]]:
    """Every attribute name of the live drop classes (computed from the code under test, so new slots are covered)."""
    from liquid2.builtin.tags.extends_tag import BlockDrop
    from liquid2.builtin.tags.for_tag import ForLoop
    from liquid2.shopify.tags.tablerow_tag import TableRow

    out = {}
    for k, cls in (("forloop", ForLoop), ("tablerowloop", TableRow), ("block", BlockDrop)):
        names = set(dir(cls))
        for c in cls.__mro__:
            names.update(getattr(c, "__slots__", ()))
        names.update(NAMES)
        # `size`, `first`, `last` are the language's own special properties of any collection (computed from len() and
        # iteration over the documented keys), not attribute reads
        out[k] = sorted(n for n in names if n not in DOCUMENTED[k] and "'" not in n and n not in ("size", "first", "last"))
    out["forloop.parentloop"] = out["forloop"]
    return out


def check_drop(drop: str, nm: str, mode: str, res: ShardResult | None) -> list[tuple[str, Any, Any]]:
    out: list[tuple[str, Any, Any]] = []
    q = "'" + nm + "'"
    probes = ["[{{ " + drop + "[" + q + "] | default: 'UNDEF' }}]", "[{{ " + drop + "[v] | default: 'UNDEF' }}]", "{% if " + drop + "[" + q + "] %}[TRUTHY]{% else %}[UNDEF]{% endif %}"]
    if nm.isidentifier():
        probes.append("[{{ " + drop + "." + nm + " | default: 'UNDEF' }}]")
    objs = make_objects()
    data = {"objs": [objs["dict"], objs["plain"]], "v": nm}
    e = env()
    for probe in probes:
        src = DROP_HOSTS[drop].replace("@", probe)
        try:
            t = e.from_string(src)
        except LiquidError:
            continue
        rendered = None
        try:
            if mode == "sync":
                rendered = t.render(**data)
            else:
                kind, val = run_solo(t.render_async(**data))
                if kind == "ok":
                    rendered = val
                elif not isinstance(val, LiquidError):
                    raise val
        except LiquidError:
            pass
        except Exception as x:  # noqa: BLE001
            if res is not None:
                res.count("foreign:" + type(x).__name__)
        if res is not None:
            res.evaluations += 1
            res.nontrivial.add(h64([drop, nm, probe, mode]))
            res.outcomes.add(h64([rendered is None]))
        if rendered is None:
            continue
        import re as _re

        cells = _re.findall(r"\[([^\]]*)\]", rendered)
        bad = [c for c in cells if c != "UNDEF"]
        if bad or not cells:
            out.append((f"C05:undocumented-key-of-engine-drop-is-defined:{drop.split('.')[0]}", f"{drop}[{nm!r}] is undefined", {"source": src, "output": rendered[:160]}))
            break
    return out


_SP: dict[str, Any] = {}


def _cases(tier: str) -> list[tuple]:
    if _SP.get("tier") == tier:
        return _SP["cases"]
    shapes = list(make_objects())
    cases: list[tuple] = []
    for nm in NAMES:
        for site in sites(nm):
            for shape in shapes:
                for mode in ("sync", "async"):
                    if mode == "async" and tier == "quick" and shape not in ("plain", "mapdrop", "classobj", "holder", "holderlist"):
                        continue
                    cases.append((site, nm, shape, mode))
                if shape in ("plain", "reprful", "mapdrop", "classobj"):
                    cases.append((site, nm, shape, "sync:debug"))
    for site in object_sites():
        for shape in shapes:
            for mode in ("sync", "async", "sync:nv", "async:nv", "sync:debug", "async:debug", "sync:strict"):
                cases.append((site, None, shape, mode))
    if tier == "thorough":
        for a, b in itertools.product(NAMES[:30], repeat=2):
            for shape in shapes[:7]:
                cases.append(("{{ o." + a + "." + b + " }}{{ o['" + a + "']['" + b + "'] }}{% assign q = o." + a + " %}{{ q." + b + " }}", b, shape, "sync"))
    for drop, names in drop_names().items():
        for nm in names:
            for mode in ("sync", "async"):
                cases.append(("<drop>", nm, drop, mode))
    _SP.update(tier=tier, cases=cases)
    return cases


def plan(tier: str, seed: int):
    cases = _cases(tier)
    n = len(cases)
    shards = [(tier, lo, hi) for lo, hi in chunks(n, max(16, n // 1500))]
    meta = {"space_size": n, "bounds": {"names": len(NAMES), "shapes": len(make_objects()), "sites_per_name": len(sites("secret")), "object_sites": len(object_sites())},
            "subspaces": {"name-sites": sum(1 for c in cases if c[1] is not None), "object-sites": sum(1 for c in cases if c[1] is None)}}
    return shards, meta


def run_shard(shard) -> ShardResult:
    tier, lo, hi = shard
    cases = _cases(tier)
    res = ShardResult()
    for i in range(lo, hi):
        site, nm, shape, mode = cases[i]
        res.cases += 1
        found = check_drop(shape, nm, mode, res) if site == "<drop>" else check_site(site, nm, shape, mode, res)
        for sig, exp, obs in found:
            res.violation(sig, {"tier": tier, "index": i, "site": site, "name": nm, "shape": shape, "mode": mode}, exp, obs)
    if lo % 13 == 0:
        res.samples.append(list(cases[lo]))
    return res


def replay(case: dict[str, Any]) -> list[dict[str, Any]]:
    res = ShardResult()
    if case["site"] == "<drop>":
        found = check_drop(case["shape"], case["name"], case["mode"], None)
    else:
        found = check_site(case["site"], case["name"], case["shape"], case["mode"], None)
    for sig, exp, obs in found:
        res.violation(sig, case, exp, obs)
    return res.violations
