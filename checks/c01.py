"""C01 — rendering implements the documented Liquid semantics (reference model + explicit-state BFS).

Every case is generated as a mini-AST, printed to source text under a layout, rendered by the real implementation and
interpreted by the reference model (mc/refmodel.py, which never sees source text); outputs (or error classes) must agree.
Sub-spaces, each exhausted:
 S1 boolean expressions: every flat token sequence atom (op atom){0..2|3} with optional `not` prefixes and one
    parenthesis pair over 11 atoms and the 11 infix operators x data; the model parses the flat list with its own
    precedence climber, so precedence and associativity are checked, not assumed;
 S2 values and paths: every value of the domain (nested to depth 2) through every path form into {{ }}, echo,
    assign + output, template string, cycle;
 S3 loops: iterable kinds x lengths 0..4 x limit x offset (incl. continue) x reversed x else x every forloop helper x
    break / continue at index k; pairs of loops over the same iterable (offset: continue) and two-level nests;
 S4 statement composition: explicit-state BFS over operation histories (leaves, one-level blocks, liquid forms), each
    transition rendering history + op + probe on both sides, states merged on (model state, implementation probe
    output);
 S5 construct-in-construct: every block constructor over bodies that are themselves blocks;
 S6 value-producing composites: ternaries, lambdas, array literals, ranges, template strings in every expression site;
 K  every operation and every pair of leaves under default_trim x suppress_blank x three layouts with whitespace
    markers: all layouts without markers must give the same output, and each must equal the model.
"""

from __future__ import annotations

import itertools
from typing import Any

from liquid2.exceptions import LiquidError

from mc import grammar
from mc import impl
from mc import refmodel
from mc.explore import bfs
from mc.harness import ShardResult
from mc.harness import chunks
from mc.harness import h64
from mc.lang import BLANK
from mc.lang import EMPTY
from mc.lang import FALSE
from mc.lang import FL
from mc.lang import NIL
from mc.lang import TRUE
from mc.lang import I
from mc.lang import Layout
from mc.lang import S
from mc.lang import V
from mc.lang import flt
from mc.lang import print_program

ID = "C01"
LEVEL = "model_checking"
ENGINES = ["E1 spaces", "E2 reference model", "E3 history BFS with canonical-state merge"]
RULE = (
    "S1-S6 + K as listed; every case runs on the implementation and on the reference model "
    "(traces_validated_against_impl = number of model traces replayed on the implementation). Non-trivial: the model "
    "produced non-empty output or an error and the case contains at least one markup construct; BFS states are "
    "distinct (model state, probe output) pairs; distinct by printed source + data"
)
LEVEL_TEXT = (
    "Explicit-state model checking of statement composition (BFS over operation histories with canonical-state merge, "
    "the transition function being the real renderer) plus bounded-exhaustive enumeration of expression, path, loop and "
    "configuration spaces, all against a reference interpreter of the documented semantics that is independent of the "
    "lexer/parser; every model trace is replayed on the implementation."
)
LEVEL_NOTE = (
    "Where the documentation is silent the model mirrors the implementation (points tagged [mirror] in mc/refmodel.py: "
    "string form of hashes, `not` taking everything to its right, str() of the right operand of `contains`, booleans as "
    "numbers in arithmetic); constructs outside the model (about 40 filters, tablerow, translate, extends) raise "
    "Unsupported and are counted as skipped - they are covered by C19 / C08 / C15 / C12 instead."
)
TECHNIQUE = "explicit-state BFS over operation histories on the real renderer with lock-step reference-model conformance + bounded-exhaustive enumeration of expression/path/loop/configuration spaces"
ASSUMPTIONS = ["the reference model is the documented semantics (anchored by a self-test of transcribed documentation examples in setup_cmd)"]

_STATE: dict[str, Any] = {}


def _setup(tier: str, seed: int) -> None:
    key = (tier, seed)
    if _STATE.get("key") == key:
        return
    n = grammar.Names(seed)
    parts = grammar.partials(n)
    envs = {}
    for trim in "+-~":
        for sup in (True, False):
            envs[(trim, sup)] = impl.make_env(trim=trim, suppress=sup, templates={k: print_program(refmodel.uniquify(v)) for k, v in parts.items()})
    _STATE.update(key=key, n=n, parts=parts, envs=envs, data=grammar.data_sets(n), ops=grammar.ops(seed), l0=grammar.level0(seed), l1s=grammar.level1_small(seed))


def impl_render(src: str, d: dict[str, Any], trim: str = "+", sup: bool = True) -> tuple[str, Any]:
    env = _STATE["envs"][(trim, sup)]
    try:
        return ("ok", env.from_string(src).render(**d))
    except LiquidError as e:
        return ("error", type(e).__name__)
    except Exception as e:  # noqa: BLE001
        return ("foreign", f"{type(e).__name__}: {e}"[:100])


def compare(body: tuple, d: dict[str, Any], res: ShardResult | None, *, layout: Layout | None = None, trim: str = "+", sup: bool = True) -> tuple[str, Any, Any, str] | None:
    """Run one case on both sides. Returns None when they agree, else (kind, model, impl, source)."""
    try:
        mk, mv, src, _ps = refmodel.render(body, d, partials=_STATE["parts"], layout=layout, trim=trim, suppress=sup)
    except refmodel.Unsupported:
        if res is not None:
            res.count("skipped_unsupported_by_model")
        return None
    except RecursionError:
        return None
    got = impl_render(src, d, trim, sup)
    if res is not None:
        res.evaluations += 1
        res.traces_validated += 1
        if (mv or mk == "error") and "{" in src:
            res.nontrivial.add(h64([src, repr(d), trim, sup]))
        res.outcomes.add(h64([mk, mv if mk == "error" else len(mv) > 0]))
    if got[0] == "foreign":
        return ("foreign-exception", (mk, mv), got, src)
    if (mk, mv) != got:
        kind = "output" if mk == got[0] == "ok" else ("error-class" if mk == got[0] else f"{mk}-vs-{got[0]}")
        return (kind, (mk, mv), got, src)
    return None


# ------------------------------------------------------------------ S1 boolean expressions


def s1_atoms(n: grammar.Names) -> list[tuple]:
    return [TRUE, FALSE, NIL, I(0), I(1), S("a"), S(""), V(n.a), V(n.g), V(n.arr), EMPTY, BLANK]


S1_OPS = ["and", "or", "==", "!=", "<>", "<", ">", "<=", ">=", "contains", "in"]


def s1_sequences(tier: str, n: grammar.Names) -> list[list[Any]]:
    atoms = s1_atoms(n)
    seqs: list[list[Any]] = [[a] for a in atoms] + [["not", a] for a in atoms]
    for a, op, b in itertools.product(atoms, S1_OPS, atoms):
        seqs.append([a, op, b])
    red = [TRUE, FALSE, NIL, I(1), V(n.g), V(n.arr), S("a")]
    for a, o1, b, o2, c in itertools.product(red, S1_OPS, red, S1_OPS, red):
        seqs.append([a, o1, b, o2, c])
        if o1 in ("and", "or") or o2 in ("and", "or"):
            seqs.append(["(", a, o1, b, ")", o2, c])
            seqs.append([a, o1, "(", b, o2, c, ")"])
            seqs.append(["not", a, o1, b, o2, c])
            seqs.append([a, o1, "not", b, o2, c])
    if tier == "thorough":
        red2 = [TRUE, FALSE, V(n.g), I(1)]
        lops = ["and", "or", "==", "<", "contains"]
        for a, o1, b, o2, c, o3, d in itertools.product(red2, lops, red2, lops, red2, lops, red2):
            seqs.append([a, o1, b, o2, c, o3, d])
            seqs.append(["not", a, o1, b, o2, "not", c, o3, d])
    return seqs


def run_s1(seq: list[Any], res: ShardResult | None) -> list[tuple[str, Any, Any, Any]]:
    out = []
    try:
        tree = refmodel.parse_flat(seq)
    except refmodel.Unsupported:
        return out
    flat = refmodel.print_flat(seq)
    src_if = "{% if " + flat + " %}T{% else %}F{% endif %}"
    for d in _STATE["data"][:6]:
        c = refmodel.Ctx(d, {}, {"trim": "+", "suppress": True}, {})
        try:
            mv = ("ok", "T" if refmodel.truthy(refmodel.ev(tree, c)) else "F")
        except refmodel.ModelError as e:
            mv = ("error", e.cls)
        except refmodel.Unsupported:
            continue
        got = impl_render(src_if, d)
        if res is not None:
            res.evaluations += 1
            res.traces_validated += 1
            res.nontrivial.add(h64([src_if, repr(d)]))
            res.outcomes.add(h64(list(mv)))
        if got != mv:
            ops = "+".join(t for t in seq if isinstance(t, str))
            out.append((f"C01:S1:boolean-expression:{'error' if 'error' in (got[0], mv[0]) else 'value'}:{ops}", {"space": "S1", "source": src_if, "data": repr(d)}, mv, got))
    return out


# ------------------------------------------------------------------ S2 paths


def s2_cases(tier: str, n: grammar.Names) -> list[tuple[tuple, dict[str, Any]]]:
    vals: list[Any] = [None, True, False, 0, 1, -1, 1.5, "", "a", "abc", " ", [], [1, 2, 3], ["b", "a"], [[1, 2], [3]], {}, {"a": 1, "size": "S"},
                       {"a": {"b": [1]}}, {"first": "F", "last": "L"}, [{"a": 1}, {"a": 2}], {"k": [1, {"z": 9}]}, range(1, 4)]  # fmt: skip
    segs = [(), ("a",), (0,), (-1,), (5,), (("q", "a"),), (("q", "a b"),), ("first",), ("last",), ("size",), ("a", "b"), ("a", "b", 0), (0, "a"), ("k", 1, "z"),
            (("p", V("y")),), ("missing",), ("first", "a"), ("size", "size")]  # fmt: skip
    cases = []
    for v in vals:
        for sg in segs:
            e = V("x", *sg)
            for y in ("a", 0):
                d = {"x": v, "y": y}
                progs = [
                    (("out", e),),
                    (("echo", e),),
                    (("assign", "z", e), ("out", V("z")), ("out", FL(V("z"), flt("size")))),
                    (("out", ("tstr", (("lit", "<"), FL(e), ("lit", ">")))),),
                    (("cycle", None, (e, I(2))), ("cycle", None, (e, I(2)))),
                    (("if", ((e, (("text", "T"),)),), (("text", "F"),)),),
                    (("out", FL(e, flt("default", S("D")))),),
                ]
                for p in progs:
                    cases.append((p, d))
                if sg and y == 0 and sg[-1] not in ("first", "last", "size"):
                    break
    return cases


# ------------------------------------------------------------------ S3 loops


def s3_cases(tier: str, n: grammar.Names) -> list[tuple[tuple, dict[str, Any]]]:
    iters: list[Any] = [[], [1], [1, 2], [1, 2, 3], [1, 2, 3, 4], range(1, 4), "ab", {"k": 1, "j": 2}, {}, None, 5]
    limits = [None, I(0), I(1), I(2), I(9), V("lim")]
    offsets = [None, I(0), I(1), I(2), "continue", V("off")]
    helpers = ["index", "index0", "rindex", "rindex0", "first", "last", "length"]
    cases = []
    body_all = tuple(("out", V("forloop", h)) for h in helpers) + (("out", V("i")), ("text", ";"))
    for it in iters:
        for lim, off, rev, els in itertools.product(limits, offsets, (False, True), (False, True)):
            opts = (() if lim is None else (("limit", lim),)) + (() if off is None else (("offset", off),)) + ((("reversed",),) if rev else ())
            loop = ("for", "i", V("it"), opts, body_all, (("text", "EMPTY"),) if els else None)
            cases.append(((loop,), {"it": it, "lim": 2, "off": 1}))
    base: list[Any] = [[1, 2, 3, 4], range(1, 5), []]
    for it in base:
        for k in (1, 2, 4):
            for interrupt in ("break", "continue"):
                body = (("out", V("i")), ("if", ((("cmp", "==", V("forloop", "index"), I(k)), ((interrupt,),)),), None), ("text", "."))
                cases.append(((("for", "i", V("it"), (), body, None), ("out", V("i"))), {"it": it}))
    # pairs / triples of loops over the same iterable: offset: continue depends on the previous loop
    specs = [(), (("limit", I(1)),), (("limit", I(2)), ("offset", I(1))), (("offset", "continue"),), (("offset", "continue"), ("limit", I(1))), (("reversed",), ("limit", I(2))), (("reversed",),), (("reversed",), ("offset", I(1)))]
    depth = 2 if tier == "quick" else 3
    for combo in itertools.product(specs, repeat=depth):
        for it in ([1, 2, 3, 4, 5], [], range(1, 4)):
            prog = tuple(("for", "i", V("it"), o, (("out", V("i")),), (("text", "-"),)) for o in combo) + (("for", "j", V("it"), (("offset", "continue"),), (("out", V("j")),), None),)
            cases.append((prog, {"it": it}))
            cases.append((prog[:-1] + (("for", "i", V("it"), (("offset", "continue"),), (("out", V("i")),), (("text", "~"),)),), {"it": it}))
    # offset: continue after the iterable became SHORTER than the recorded stop index: rows of decreasing length under
    # one inner loop, and a variable re-bound to a shorter array between two loops of the same text
    rows_sets = ([[1, 2, 3, 4, 5], [6, 7, 8], [1, 2, 3, 4, 5, 6]], [[1, 2, 3], [], [4]], [[1], [1, 2], [1, 2, 3]])
    for rows in rows_sets:
        for o in ((("offset", "continue"),), (("offset", "continue"), ("limit", I(2)))):
            inner = ("for", "c", V("row"), o, (("out", V("c")),), (("text", "none"),))
            cases.append(((("for", "row", V("rows"), (), (inner, ("text", ";")), None),), {"rows": rows}))
    for long_, short in (([1, 2, 3, 4, 5], [9, 8]), ([1, 2, 3], []), ([1, 2], [1, 2])):
        for first in ((("limit", I(4)),), (), (("limit", I(2)),)):
            prog = (
                ("assign", "a", V("long")), ("for", "x", V("a"), first, (("out", V("x")),), None), ("text", "|"),
                ("assign", "a", V("short")), ("for", "x", V("a"), (("offset", "continue"),), (("out", V("x")),), (("text", "none"),)), ("text", "|"),
                ("for", "x", V("a"), (("offset", "continue"),), (("out", V("x")),), (("text", "none"),)),
            )  # fmt: skip
            cases.append((prog, {"long": long_, "short": short}))
    # offset: continue belongs to one (variable, iterable) pair: names with hyphens whose texts join to the same string
    # (`a-b` over `c`, `a` over `b-c`) are different loops
    for first in ((("limit", I(1)),), (("limit", I(2)),), ()):
        prog = (
            ("for", "a-b", V("c"), first, (("out", V("a-b")),), None), ("text", "|"),
            ("for", "a", V("b-c"), (("offset", "continue"),), (("out", V("a")),), (("text", "none"),)), ("text", "|"),
            ("for", "a-b", V("c"), (("offset", "continue"),), (("out", V("a-b")),), (("text", "none"),)), ("text", "|"),
            ("for", "a", V("b-c"), (("offset", "continue"),), (("out", V("a")),), (("text", "none"),)),
        )
        cases.append((prog, {"c": [1, 2, 3], "b-c": [7, 8, 9]}))
    # cycle groups are told apart by how their items are WRITTEN: a variable and a string of the same spelling, numbers
    # with equal hashes (-1 / -2) or equal values (1 / 1.0), and the two quote styles of one string
    T = ("text", "|")
    item_sets = [
        ((V("a"), V("b")), (S("a"), S("b"))), ((I(-1), I(5)), (I(-2), I(5))), ((I(1), I(2)), (("float", 1.0), ("float", 2.0))),
        ((S("x"), I(1)), (V("x"), I(1))), ((TRUE, I(1)), (I(1), I(1))), ((NIL, S("")), (S(""), NIL)),
    ]
    for first, second in item_sets:
        for grp in (None, S("g")):
            prog = (("cycle", grp, first), T, ("cycle", grp, second), T, ("cycle", grp, first), T, ("cycle", grp, second), T, ("cycle", None, first))
            cases.append((prog, {"a": "x", "b": "y", "x": "vx"}))
    # two-level nests: parentloop
    for it1, it2 in itertools.product(([1, 2], [], [1]), ([7, 8], [], "ab")):
        body2 = (("out", V("forloop", "parentloop", "index")), ("out", V("forloop", "index")), ("out", V("forloop", "parentloop", "last")), ("out", V("i")), ("out", V("j")), ("text", " "))
        prog = (("for", "i", V("a"), (), (("for", "j", V("b"), (), body2, (("text", "e"),)), ("out", V("forloop", "parentloop"))), None),)
        cases.append((prog, {"a": it1, "b": it2}))
    return cases


# ------------------------------------------------------------------ S7 tables and filters on both sides of a scope


def _trees(nodes: int) -> list[list]:
    """Every ordered tree with exactly `nodes` array nodes, as nested lists [label, child, child, ...]."""
    memo: dict[int, list] = {}

    def forests(k: int) -> list[list]:  # ordered forests with k nodes in total
        if k == 0:
            return [[]]
        if k in memo:
            return memo[k]
        out = []
        for first in range(1, k + 1):  # size of the first tree
            for kids in forests(first - 1):
                for rest in forests(k - first):
                    out.append([kids] + rest)
        memo[k] = out
        return out

    counter = [0]

    def label(kids_forest: list) -> list:
        counter[0] += 1
        me = [counter[0]]
        for kf in kids_forest:
            me.append(label(kf))
        return me

    res = []
    for f in forests(nodes - 1):
        counter[0] = 0
        res.append(label(f))
    return res


def s7_cases(tier: str, n: grammar.Names) -> list[tuple[tuple, dict[str, Any]]]:
    cases: list[tuple[tuple, dict[str, Any]]] = []
    x = ("var", "x", ())
    lam_id = ("lambda", ("x",), x)
    chains = [
        (flt("join", S(",")),), (flt("reverse"), flt("join", S(","))), (flt("compact"), flt("size")), (flt("map", lam_id), flt("join", S(","))),
        (flt("concat", V("one")), flt("size")), (flt("where", lam_id), flt("size")), (flt("reverse"), flt("first")), (flt("find", ("lambda", ("x",), ("cmp", "==", x, V("last")))),),
    ]
    # every shape of nested arrays with up to 8 (quick) / 9 arrays in total: what a sequence filter sees is the
    # flattened table, however many rows it has and wherever they nest (down to the documented depth)
    for k in range(1, (8 if tier == "quick" else 9) + 1):
        for t in _trees(k):
            for ch in chains:
                cases.append(((("out", FL(V("t"), *ch)),), {"t": t, "one": [[0]], "last": k}))
    # one filter name used on both sides of a scope boundary with a lambda that reads a FREE name: the name means what
    # it means where the lambda is written
    for name, tail in (("map", (flt("join", S(",")),)), ("where", (flt("size"),)), ("find", ())):
        def use(free: str) -> tuple:
            body = V(free) if name == "map" else ("cmp", "==", x, V(free))
            return ("out", FL(V("arr"), flt(name, ("lambda", ("x",), body)), *tail))

        T = ("text", "|")
        macro = ("macro", "mm", (("w", None),), (use("w"), T, use("g")))
        for order in range(4):
            if order == 0:
                prog = (use("g"), T, macro, ("call", "mm", (I(2),), ()), T, use("g"))
            elif order == 1:
                prog = (macro, ("call", "mm", (I(2),), ()), T, use("g"), T, ("call", "mm", (I(3),), ()))
            elif order == 2:
                prog = (("assign", "w", I(3)), use("w"), T, macro, ("call", "mm", (I(2),), ()), T, use("w"))
            else:
                prog = (use("g"), T, ("with", (("g", I(2)),), (use("g"),)), T, ("for", "g", V("arr"), (), (use("g"),), None), T, use("g"))
            cases.append((prog, {"arr": [1, 2, 3, 2], "g": 1}))
    # one `call` node executed against several definitions of the macro (the definition in force is the one executed
    # last): same parameter names with different defaults, more / fewer parameters, the same definition again
    body = (("out", V("w")), ("text", ":"), ("out", V("d")), ("text", ":"), ("out", V("e")), ("text", ";"))
    sigs = [
        (("w", None), ("d", S("A"))), (("w", None), ("d", S("B"))), (("w", None), ("d", None)), (("w", None), ("d", V("g"))), (("w", None), ("d", S("A")), ("e", S("E"))), (("d", S("D")), ("w", None)),
    ]
    calls = [("call", "mm", (V("i"),), ()), ("call", "mm", (), (("w", V("i")),)), ("call", "mm", (V("i"),), (("e", I(7)),)), ("call", "mm", (V("i"), S("p2")), ())]
    for s1 in sigs:
        for s2 in sigs:
            if s1 is s2:
                continue
            for cl in calls:
                redefine = ("if", ((("cmp", "==", V("i"), I(2)), (("macro", "mm", s2, body),)),), (("macro", "mm", s1, body),))
                cases.append(((("for", "i", V("arr"), (), (redefine, cl), None),), {"arr": [1, 2, 3, 2], "g": "G"}))
    return cases


# ------------------------------------------------------------------ S4 BFS


def probe(n: grammar.Names) -> tuple:
    return (
        ("text", "⟦"),
        ("out", V(n.a)), ("text", "|"), ("out", V(n.b)), ("text", "|"), ("out", V(n.c)), ("text", "|"),
        ("cycle", None, (I(1), I(2))), ("cycle", S("grp"), (I(1), I(2))), ("text", "|"),
        ("for", n.a, V(n.arr), (("offset", "continue"),), (("out", V(n.a)),), None), ("text", "|"),
        ("for", n.i, V(n.arr), (("offset", "continue"),), (("out", V(n.i)),), None), ("text", "|"),
        ("increment", n.c), ("increment", n.a), ("call", n.m, (I(1),), ()),
        ("text", "⟧"),
    )  # fmt: skip


BFS_DATA = (1, 3, 7)


def s4_replay(hist: tuple, res: ShardResult) -> tuple[Any, list[Any]]:
    n = _STATE["n"]
    body = tuple(hist) + probe(n)
    problems: list[Any] = []
    keys = []
    prepared = refmodel.prepare(body, None)
    template = None
    for di in BFS_DATA if _STATE["key"][0] == "thorough" else BFS_DATA[:2]:
        d = _STATE["data"][di]
        try:
            mk, mv, src, _ps = refmodel.render(body, d, partials=_STATE["parts"], prepared=prepared)
        except refmodel.Unsupported:
            res.count("skipped_unsupported_by_model")
            return ("unsupported", repr(hist)), []
        if template is None:
            try:
                template = _STATE["envs"][("+", True)].from_string(src)
            except LiquidError as e:
                template = ("error", type(e).__name__)
            except Exception as e:  # noqa: BLE001
                template = ("foreign", f"{type(e).__name__}: {e}"[:100])
        if isinstance(template, tuple):
            got = template
        else:
            try:
                got = ("ok", template.render(**d))
            except LiquidError as e:
                got = ("error", type(e).__name__)
            except Exception as e:  # noqa: BLE001
                got = ("foreign", f"{type(e).__name__}: {e}"[:100])
        res.evaluations += 1
        res.traces_validated += 1
        if got != (mk, mv):
            kind = "output" if got[0] == mk == "ok" else f"{mk}-vs-{got[0]}"
            last = hist[-1][0] if hist else "probe"
            problems.append((f"C01:S4:composition:{kind}:{'+'.join(s[0] for s in hist)}"[:120], {"space": "S4", "source": src, "data": repr(d), "history": [s[0] for s in hist], "last": last, "hist_ast": hist}, (mk, mv), got))
        keys.append((mk, mv, got))
    return h64(repr(keys)), problems


# ------------------------------------------------------------------ K configurations x layouts


def k_cases(tier: str) -> list[tuple]:
    ops, l0 = _STATE["ops"], _STATE["l0"]
    progs = [(("text", " x\n"), st, ("text", "\n y ")) for st in ops]
    progs += [(("text", " \n"), a, ("text", "\t"), b, ("text", "\n")) for a, b in itertools.product(l0[:20], repeat=2)]
    # literal text that contains the opening of a markup that is never closed (`{#` without `#}`, a lone `{`): it is
    # text, and only the white space next to a real tag is subject to trimming
    look = [(("text", " x \n{# y \n"), st, ("text", "\n { z {# w \n"), st, ("text", " {#\n")) for st in l0[:20]]
    progs += [p_ for p_ in look if "#}" not in print_program(p_)]
    return progs


MARKER_SETS = [None, ("-",) * 40, ("~",) * 40, ("+",) * 40, ("", "-") * 20, ("-", "") * 20, ("~", "", "", "-") * 10]


def run_k(prog: tuple, res: ShardResult | None) -> list[tuple[str, Any, Any, Any]]:
    out = []
    d = _STATE["data"][1]
    plain_outputs = set()
    for style in ("canon", "tight", "loose"):
        for trim, sup in itertools.product("+-~", (True, False)):
            for marks in MARKER_SETS if style == "canon" else MARKER_SETS[:1]:
                lay = Layout(style=style, markers=marks)
                r = compare(prog, d, res, layout=lay, trim=trim, sup=sup)
                if r is not None:
                    kind, m, g, src = r
                    out.append((f"C01:K:layout-config:{kind}:{prog[1][0]}", {"space": "K", "source": src, "data": repr(d), "trim": trim, "suppress": sup, "style": style, "markers": None if marks is None else list(marks[:8])}, m, g))
                elif marks is None and trim == "+" and not sup:
                    try:
                        plain_outputs.add(refmodel.render(prog, d, partials=_STATE["parts"], layout=lay, trim=trim, suppress=sup)[:2])
                    except refmodel.Unsupported:
                        pass
    if len(plain_outputs) > 1:
        out.append(("C01:K:layout-dependent-output", {"space": "K", "source": print_program(prog)}, "one output for all marker-free layouts", sorted(map(repr, plain_outputs))))
    return out


# ------------------------------------------------------------------ harness interface


def _flat_spaces(tier: str, seed: int) -> dict[str, list]:
    if _STATE.get("flat_key") == (tier, seed):
        return _STATE["flat"]
    n = _STATE["n"]
    l0, l1s = _STATE["l0"], _STATE["l1s"]
    spaces: dict[str, list] = {
        "S1": s1_sequences(tier, n),
        "S2": s2_cases(tier, n),
        "S3": s3_cases(tier, n),
        "K": k_cases(tier),
        "S7": s7_cases(tier, n),
    }
    # S5: blocks over block bodies (construct in construct)
    l2 = grammar.blocks(n, [(s,) for s in l1s[:: (3 if tier == "quick" else 1)]])
    spaces["S5"] = [((st,), None) for st in l2] + [((st,), None) for st in grammar.liquid_wrap(list(grammar.level1(seed)))]
    spaces["S5"] += [((st,), None) for st in grammar.mixed_blank_nests(seed, tier == "quick")]
    # the same nests with an interrupt as the innermost statement, followed by a probe of every pool name and forloop:
    # whatever the nest pushed on the scope must be gone afterwards, however it was left
    after = (("text", "|"), ("out", V(n.i)), ("out", V(n.a)), ("out", V(n.b)), ("out", V(n.g)), ("out", V("forloop", "index")), ("out", V("forloop")))
    for leaf in ((("out", V(n.i)), ("break",)), (("out", V(n.a)), ("continue",)), (("if", ((V(n.g), (("break",),)),), None), ("out", V(n.i)))):
        inner_blocks = [st for st in grammar.blocks(n, [leaf]) if st[0] in ("with", "if", "unless", "case", "capture", "for")]
        for outer in grammar.blocks(n, [(st,) for st in inner_blocks]):
            if outer[0] == "for":
                spaces["S5"].append(((outer,) + after, None))
    # S6: value-producing composites in every expression site
    wide = grammar.wide_exprs(n, tier)
    spaces["S6"] = [(prog, None) for e in wide for prog in grammar.expr_sites(n, e)] + [(prog, None) for p in grammar.wide_primitives(n) for prog in grammar.prim_sites(n, p)]
    _STATE.update(flat_key=(tier, seed), flat=spaces)
    return spaces


def plan(tier: str, seed: int):
    _setup(tier, seed)
    sp = _flat_spaces(tier, seed)
    shards: list[Any] = []
    total = 0
    for name, cases in sp.items():
        per = {"S1": 2000, "S2": 800, "S3": 300, "S5": 200, "S6": 300, "K": 40, "S7": 400}[name]
        for lo, hi in chunks(len(cases), max(1, len(cases) // per)):
            shards.append((name, tier, seed, lo, hi))
        total += len(cases)
    # S4: BFS roots = first operation
    roots = _STATE["ops"] if tier == "thorough" else tuple(_STATE["l0"]) + tuple(_STATE["l1s"][::2])
    for i in range(len(roots)):
        shards.append(("S4", tier, seed, i, i + 1))
    total += len(roots)
    shards.sort(key=lambda s: 0 if s[0] in ("S4", "K") else 1)
    meta = {
        "space_size": total,
        "subspaces": {**{k: len(v) for k, v in sp.items()}, "S4-bfs-roots": len(roots)},
        "bounds": {"bfs_depth": 3, "bfs_alphabet": len(roots), "data_sets": len(_STATE["data"]), "configs": 6, "layouts": 3},
    }
    return shards, meta


def run_shard(shard) -> ShardResult:
    name, tier, seed, lo, hi = shard
    _setup(tier, seed)
    res = ShardResult()
    if name == "S4":
        roots = _STATE["ops"] if tier == "thorough" else tuple(_STATE["l0"]) + tuple(_STATE["l1s"][::2])
        root = roots[lo]
        alphabet = roots if tier == "thorough" else tuple(_STATE["l0"]) + tuple(_STATE["l1s"])
        res.cases += 1

        def replay(hist: tuple):
            return s4_replay((root,) + hist, res)

        depth = 2  # + the root = histories of length 3
        mid = alphabet if tier == "thorough" else tuple(_STATE["l0"]) + tuple(_STATE["l1s"][::3])
        out = bfs(replay, lambda hist: mid if len(hist) < 1 else _STATE["l0"], depth, max_transitions=40000 if tier == "quick" else 400000)
        res.transitions += out["transitions"]
        res.states |= {h64([lo, k]) for k in out["state_keys"]}
        res.capped = res.capped or out["capped"]
        res.count("bfs_states", out["states"])
        res.count("bfs_transitions", out["transitions"])
        for hist, (sig, case, m, g) in out["problems"]:
            res.violation(sig, {"tier": tier, "seed": seed, **case}, m, g, repro=_repro(case))
        if lo % 40 == 0:
            res.samples.append({"space": "S4", "root": print_program((root,)), "states": out["states"], "transitions": out["transitions"]})
        return res
    cases = _flat_spaces(tier, seed)[name]
    for i in range(lo, hi):
        res.cases += 1
        if name == "S1":
            probs = run_s1(cases[i], res)
        elif name == "K":
            probs = run_k(cases[i], res)
        else:
            prog, d = cases[i]
            datas = [d] if d is not None else _STATE["data"]
            probs = []
            for dd in datas:
                r = compare(prog, dd, res)
                if r is not None:
                    kind, m, g, src = r
                    probs.append((f"C01:{name}:{kind}:{_construct(prog)}", {"space": name, "source": src, "data": repr(dd)}, m, g))
        for sig, case, m, g in probs:
            res.violation(sig, {"tier": tier, "seed": seed, "index": i, **case}, m, g, repro=_repro(case))
    if lo % 5 == 0 and name != "S1":
        c = cases[lo]
        res.samples.append({"space": name, "source": print_program(c if name == "K" else c[0])[:200]})
    return res


def _construct(prog: tuple) -> str:
    kinds = []
    for st in prog:
        kinds.append(st[0])
        for sub in __import__("mc.lang", fromlist=["x"]).sub_bodies(st):
            kinds.extend(s[0] for s in sub)
    return "+".join(dict.fromkeys(kinds))[:60]


def _repro(case: dict[str, Any]) -> str:
    return (
        "# stand-alone reproduction (C01): the documented semantics (reference model) and the implementation disagree\n"
        "import sys; sys.path.insert(0, '/verif')\nfrom checks import c01\nfrom mc import grammar\n"
        "c01._setup('quick', 0)\n"
        f"src = {case.get('source')!r}\n"
        f"print(c01.impl_render(src, eval({case.get('data', '{}')!r}), {case.get('trim', '+')!r}, {case.get('suppress', True)!r}))\n"
    )


def replay(case: dict[str, Any]) -> list[dict[str, Any]]:
    """Re-run the recorded source on the implementation and compare with the recorded model expectation."""
    tier, seed = case.get("tier", "quick"), case.get("seed", 0)
    _setup(tier, seed)
    res = ShardResult()
    sp = case["space"]
    if sp == "S4":
        # replay the whole shard root is expensive: re-render the recorded source against the recorded model value
        return _replay_source(case)
    cases = _flat_spaces(tier, seed)[sp]
    c = cases[case["index"]]
    if sp == "S1":
        probs = run_s1(c, None)
    elif sp == "K":
        probs = run_k(c, None)
    else:
        prog, d = c
        probs = []
        for dd in [d] if d is not None else _STATE["data"]:
            r = compare(prog, dd, None)
            if r is not None:
                kind, m, g, src = r
                probs.append((f"C01:{sp}:{kind}:{_construct(prog)}", case, m, g))
    for sig, _c, m, g in probs:
        res.violation(sig, case, m, g)
    return res.violations


def _replay_source(case: dict[str, Any]) -> list[dict[str, Any]]:
    from mc.progspace import totuple

    res = ShardResult()
    hist = totuple(case["hist_ast"])
    _key, problems = s4_replay(hist, ShardResult())
    for sig, c, m, g in problems:
        res.violation(sig, case, m, g)
    return res.violations
