"""C20 — literals denote exactly what is written; json output decodes to its input.

Strings: all words of length <= 2 at every site and length 3 (quick) / 4 (thorough) at the output site over one
representative of every character class the string scanners and unescape() distinguish, with EVERY valid spelling
of each character (raw, \\uXXXX upper / lower case, surrogate pair, short escape, \\' or \\" as applicable, \\$),
x quote kind x sites {output, echo, assign, filter positional / keyword argument, bracketed path segment with a
matching hash key, case / when, cycle item and group name, with / include / render / call argument, loop array
literal, template string with an interpolation before / after, ternary branches, comparison operand}.
Numbers: integers 0..64, 2^k and 2^k+-1 (k <= 70), 10^k and 10^k+-1 (k <= 40), negated, in plain and e / E / e+
spellings; floats d.d and d.de+-k on a grid; at the primitive and at the boolean-expression parse site.
JSON: every value of the domain closed under one level of nesting, with and without an indent argument.
Oracle: the rendered value equals the intended string (through {{ }} and through `json` + json.loads, so that
invisible characters are compared exactly); integer literals equal the exact integer (Decimal arithmetic), float
literals equal float(spelling); json.loads(render(x | json)) == x.
"""

from __future__ import annotations

import itertools
import json
from decimal import Decimal
from typing import Any

from liquid2.exceptions import LiquidError

from mc import impl
from mc.harness import ShardResult
from mc.harness import chunks
from mc.harness import h64

ID = "C20"
LEVEL = "exploration"
ENGINES = ["E1 spaces"]
RULE = (
    "words over (character class x spelling) alternatives x quote kind x sites; numbers x spellings x parse sites; "
    "JSON values x indent. Non-trivial: the literal contains at least one escape sequence, quote, backslash, '$', "
    "non-ASCII character or exponent (anything but plain ASCII letters / small plain integers); distinct by source"
)
LEVEL_TEXT = (
    "Bounded-exhaustive exploration over every spelling of every character class in every syntactic position where a "
    "string or number literal may appear, executed on the real lexer/parser/renderer and compared with the intended "
    "value computed independently (the generator knows which string it spelled)."
)
LEVEL_NOTE = (
    "One representative per character class (an argument from the case analysis of the scanners, not a proof over all "
    "of Unicode); words <= 4 characters; integers <= 10^40; floats on a grid."
)
TECHNIQUE = "bounded-exhaustive enumeration of literal spellings x syntactic sites with an independently computed intended value"
ASSUMPTIONS = ["json.loads is the reference JSON decoder", "Decimal gives the exact value of an integer spelling"]

# (character, list of spellings valid in single-quoted strings, list valid in double-quoted strings)


def _u(ch: str, upper: bool = False) -> str:
    cp = ord(ch)
    if cp > 0xFFFF:
        cp -= 0x10000
        hi, lo = 0xD800 + (cp >> 10), 0xDC00 + (cp & 0x3FF)
        f = "\\u%04X\\u%04X" if upper else "\\u%04x\\u%04x"
        return f % (hi, lo)
    return ("\\u%04X" if upper else "\\u%04x") % cp


def char_table() -> list[tuple[str, list[str], list[str]]]:
    t: list[tuple[str, list[str], list[str]]] = []

    def add(ch: str, both: list[str], single: list[str] | None = None, double: list[str] | None = None) -> None:
        t.append((ch, both + (single or []), both + (double or [])))

    add("a", ["a", _u("a"), _u("A".lower(), True)])
    add(" ", [" ", _u(" ")])
    add("'", [_u("'")], single=["\\'"], double=["'"])
    add('"', [_u('"')], single=['"'], double=['\\"'])
    add("\\", ["\\\\", _u("\\")])
    add("/", ["/", "\\/"])
    add("$", ["$", "\\$"])
    add("{", ["{", _u("{")])
    add("}", ["}"])
    add("%", ["%"])
    add("#", ["#"])
    add("\b", ["\\b", "\b", _u("\b")])
    add("\f", ["\\f", "\f"])
    add("\n", ["\\n", "\n", _u("\n", True)])
    add("\r", ["\\r", "\r"])
    add("\t", ["\\t", "\t"])
    add("\x1f", ["\x1f", _u("\x1f")])
    add("\x7f", ["\x7f", _u("\x7f", True)])
    add("é", ["é", _u("é"), _u("é", True)])
    add(" ", [" ", _u(" ")])
    add("￿", ["￿", _u("￿", True)])
    add("\U0001f600", ["\U0001f600", _u("\U0001f600"), _u("\U0001f600", True)])
    # characters that Unicode normalisation would change: a combining mark (after "a": a decomposed letter), two
    # singletons that normalise to another code point, a compatibility ideograph. A literal denotes what is written.
    add("\u0301", ["\u0301", _u("\u0301")])
    add("\u212b", ["\u212b", _u("\u212b", True)])
    add("\u2126", ["\u2126"])
    add("\uf900", ["\uf900", _u("\uf900")])
    return t


def spelled_units(quote: str) -> list[tuple[str, str]]:
    """(intended char, spelling) for every spelling valid inside a string delimited by `quote`."""
    out = []
    for ch, single, double in char_table():
        for sp in single if quote == "'" else double:
            out.append((ch, sp))
    return out


def words(maxlen: int, quote: str) -> list[tuple[str, str]]:
    """(intended, literal source text including quotes)."""
    units = spelled_units(quote)
    out = []
    for n in range(0, maxlen + 1):
        for combo in itertools.product(units, repeat=n):
            intended = "".join(c for c, _ in combo)
            body = "".join(s for _, s in combo)
            # a raw '$' directly followed by a raw '{' would start an interpolation: that is a different literal
            bad = False
            for (c1, s1), (c2, s2) in zip(combo, combo[1:]):
                if s1 == "$" and s2 == "{":
                    bad = True
            if bad:
                continue
            out.append((intended, quote + body + quote))
    return out


# ------------------------------------------------------------------ sites

SITES = [
    "output", "echo", "assign", "filter-arg", "filter-kwarg", "path-segment", "case-when", "cycle-item", "cycle-group",
    "with-arg", "include-arg", "render-arg", "call-arg", "macro-default", "array-literal", "tstr-before", "tstr-after", "ternary-left",
    "ternary-else", "compare", "liquid-echo", "include-name", "render-with", "default-filter",
    "tstr-after-inner-string", "tstr-after-inner-empty-string", "tstr-after-inner-tstr", "tstr-between-inner-strings", "render-name", "extends-name", "counter-name", "group-name-respelled", "macro-name", "block-name", "alias-name",
]  # fmt: skip


def respell(intended: str) -> str:
    """Another valid spelling of the same string: double-quoted, every non-ASCII character as a \\u escape."""
    return json.dumps(intended).replace("${", "\\${")


def site_program(site: str, lit: str, intended: str) -> tuple[str, dict[str, str], dict[str, Any], str] | None:
    """Returns (source, partials, data, observation): observation 'json' => output is json of the value,
    'raw' => output is the value itself, 'yes' => output must be 'yes'."""
    q = lit[0]
    partials = {"p": "{{ x | json }}"}
    data: dict[str, Any] = {}
    if site == "output":
        return ("{{ " + lit + " | json }}", partials, data, "json")
    if site == "echo":
        return ("{% echo " + lit + " %}", partials, data, "raw")
    if site == "assign":
        return ("{% assign x = " + lit + " %}{{ x | json }}", partials, data, "json")
    if site == "filter-arg":
        return ("{{ '' | append: " + lit + " | json }}", partials, data, "json")
    if site == "filter-kwarg":
        return ("{{ nil | default: " + lit + ", allow_false: true | json }}", partials, data, "json-or-empty-default")
    if site == "path-segment":
        data = {"h": {intended: "found"}}
        return ("{{ h[" + lit + "] }}", partials, data, "found")
    if site == "case-when":
        data = {"v": intended}
        return ("{% case v %}{% when " + lit + " %}yes{% else %}no{% endcase %}", partials, data, "yes")
    if site == "cycle-item":
        return ("{% capture c %}{% cycle " + lit + ", 'z' %}{% endcapture %}{{ c | json }}", partials, data, "json")
    if site == "cycle-group":
        # two cycles in the same named group advance together; a differently named group does not
        return ("{% cycle " + lit + ": 1, 2 %}{% cycle " + lit + ": 1, 2 %}", partials, data, "12")
    if site == "with-arg":
        return ("{% with x: " + lit + " %}{{ x | json }}{% endwith %}", partials, data, "json")
    if site == "include-arg":
        return ("{% include 'p', x: " + lit + " %}", partials, data, "json")
    if site == "render-arg":
        return ("{% render 'p', x: " + lit + " %}", partials, data, "json")
    if site == "render-with":
        return ("{% render 'p' with " + lit + " as x %}", partials, data, "json")
    if site == "call-arg":
        return ("{% macro m x %}{{ x | json }}{% endmacro %}{% call m " + lit + " %}", partials, data, "json")
    if site == "macro-default":
        return ("{% macro m x: " + lit + " %}{{ x | json }}{% endmacro %}{% call m %}", partials, data, "json")
    if site == "array-literal":
        return ("{% for i in " + lit + ", " + lit + " %}{{ i | json }}|{% endfor %}", partials, data, "json-twice")
    if site == "tstr-before":
        data = {"v": "V"}
        return ("{{ " + q + "${v}" + lit[1:] + " | json }}", partials, data, "json-prefix-V")
    if site == "tstr-after":
        data = {"v": "V"}
        return ("{{ " + lit[:-1] + "${ v }" + q + " | json }}", partials, data, "json-suffix-V")
    if site == "ternary-left":
        return ("{{ " + lit + " if true else 'no' | json }}", partials, data, "json-tail")
    if site == "ternary-else":
        return ("{{ 'no' if false else " + lit + " || json }}", partials, data, "json")
    if site == "compare":
        data = {"v": intended}
        return ("{% if v == " + lit + " and " + lit + " == v %}yes{% else %}no{% endif %}", partials, data, "yes")
    if site == "liquid-echo":
        if "\n" in lit or "\r" in lit:
            return None  # a raw line break ends a line statement: not a literal position
        return ("{% liquid\n assign x = " + lit + "\n echo x | json\n%}", partials, data, "json")
    if site == "include-name":
        if intended == "" :
            return None
        partials = {intended: "INCLUDED"}
        return ("{% include " + lit + " %}", partials, data, "included")
    if site == "default-filter":
        return ("{{ missing | default: " + lit + " | json }}", partials, data, "json")
    if site == "tstr-after-inner-string":
        # the interpolation contains a string written with the OTHER quote; the literal text follows it
        oq = '"' if q == "'" else "'"
        data = {"v": "V"}
        return ("{{ " + q + "${ v | append: " + oq + "!" + oq + " }" + lit[1:] + " | json }}", partials, data, "json-prefix-V!")
    if site == "tstr-after-inner-empty-string":
        oq = '"' if q == "'" else "'"
        data = {"v": "V"}
        return ("{{ " + q + "${ v | append: " + oq + oq + " }" + lit[1:] + " | json }}", partials, data, "json-prefix-V")
    if site == "tstr-after-inner-tstr":
        # the interpolation contains a template string of the other quote kind, itself with an (empty-string) interpolation
        oq = '"' if q == "'" else "'"
        data = {"v": "V"}
        return ("{{ " + q + "${ v | append: " + oq + "${ " + q + q + " }!" + oq + " }" + lit[1:] + " | json }}", partials, data, "json-prefix-V!")
    if site == "tstr-between-inner-strings":
        oq = '"' if q == "'" else "'"
        data = {"v": "V"}
        return ("{{ " + lit[:-1] + "${ v | default: " + oq + oq + " }${ " + oq + oq + " }" + q + " | json }}", partials, data, "json-suffix-V")
    if site in ("render-name", "extends-name"):
        if intended == "":
            return None
        partials = {intended: "INCLUDED"}
        return ("{% " + site.split("-")[0] + " " + lit + " %}", partials, data, "included")
    # names: the same name written a second time in another spelling must be the same name
    if site in ("counter-name", "group-name-respelled", "macro-name", "block-name", "alias-name"):
        if intended == "" or "\n" in lit or "\r" in lit:
            return None
        other = respell(intended)
        if site == "counter-name":
            return ("{% increment " + lit + " %}{% increment " + other + " %}{% decrement " + lit + " %}", partials, data, "011")
        if site == "group-name-respelled":
            return ("{% cycle " + lit + ": 1, 2 %}{% cycle " + other + ": 1, 2 %}", partials, data, "12")
        if site == "macro-name":
            return ("{% macro " + lit + " %}M{% endmacro %}{% call " + other + " %}", partials, data, "M")
        if site == "block-name":
            partials = {"nb": "<{% block " + other + " %}base{% endblock %}>"}
            return ("{% extends 'nb' %}{% block " + lit + " %}over{% endblock %}", partials, data, "<over>")
        partials = {"pa": "{{ [" + other + "] }}"}
        return ("{% include 'pa' with 'val' as " + lit + " %}{% render 'pa' with 'val' as " + lit + " %}", partials, data, "valval")
    raise ValueError(site)


GENEROUS = {"output_stream_limit": 10**7, "loop_iteration_limit": 10**7, "local_namespace_limit": 10**9}


def check_string(site: str, intended: str, lit: str, res: ShardResult | None) -> list[tuple[str, Any, Any, Any]]:
    out: list[tuple[str, Any, Any, Any]] = []
    prog = site_program(site, lit, intended)
    if prog is None:
        return out
    src, partials, data, obs = prog
    env = impl.make_env(templates=partials)
    # the same program under generous resource limits (another output buffer class, counting assigns and loops):
    # a limit that is not reached denotes the same text
    env_l = impl.make_env(templates=partials, limits=GENEROUS)
    try:
        rendered_l: Any = env_l.from_string(src).render(**data)
    except Exception as e:  # noqa: BLE001
        rendered_l = f"{type(e).__name__}"
    try:
        rendered = env.from_string(src).render(**data)
        if rendered_l != rendered:
            out.append((f"C20:string-literal-differs-under-unreached-limits:{site}:{_cls(lit)}", {"site": site, "source": src, "intended": intended, "limits": GENEROUS}, rendered, rendered_l))
    except LiquidError as e:
        out.append((f"C20:string-literal-rejected:{site}:{_cls(lit)}", {"site": site, "source": src, "intended": intended}, intended, f"{type(e).__name__}: {e.message}"))
        return out
    except Exception as e:  # noqa: BLE001
        out.append((f"C20:string-literal-foreign-exception:{site}:{type(e).__name__}", {"site": site, "source": src, "intended": intended}, intended, f"{type(e).__name__}: {e}"))
        return out
    if res is not None:
        res.evaluations += 2
        if lit[1:-1] != intended or any(ord(c) > 127 or c in "'\"\\$" for c in intended):
            res.nontrivial.add(h64(src))
    got: Any
    try:
        if obs == "json":
            got = json.loads(rendered)
            ok = got == intended
        elif obs == "raw":
            got, ok = rendered, rendered == intended
        elif obs == "json-or-empty-default":
            got = json.loads(rendered)
            ok = got == intended
        elif obs == "found":
            got, ok = rendered, rendered == "found"
        elif obs == "yes":
            got, ok = rendered, rendered == "yes"
        elif obs == "12":
            got, ok = rendered, rendered == "12"
        elif obs == "json-twice":
            parts = rendered.split("|")
            got = [json.loads(p) for p in parts[:2]]
            ok = got == [intended, intended]
        elif obs == "json-prefix-V":
            got = json.loads(rendered)
            ok = got == "V" + intended
        elif obs == "json-suffix-V":
            got = json.loads(rendered)
            ok = got == intended + "V"
        elif obs == "json-tail":
            got = rendered
            # (the tail-less ternary applies `json` to the alternative only: the left value is output as is)
            ok = rendered == intended
        elif obs == "included":
            got, ok = rendered, rendered == "INCLUDED"
        elif obs == "json-prefix-V!":
            got = json.loads(rendered)
            ok = got == "V!" + intended
        elif obs in ("011", "M", "<over>", "valval"):
            got, ok = rendered, rendered == obs
        else:
            raise ValueError(obs)
    except (ValueError, IndexError) as e:
        got, ok = f"undecodable output {rendered!r} ({e})", False
    if res is not None:
        res.outcomes.add(h64([site, ok]))
    if not ok:
        out.append((f"C20:string-literal-value-differs:{site}:{_cls(lit)}", {"site": site, "source": src, "intended": intended}, intended, got))
    return out


def _cls(lit: str) -> str:
    body = lit[1:-1]
    kinds = []
    if "\\u" in body:
        kinds.append("uXXXX")
    if "\\'" in body or '\\"' in body:
        kinds.append("escaped-quote")
    if "\\\\" in body:
        kinds.append("escaped-backslash")
    if "\\$" in body:
        kinds.append("escaped-dollar")
    if any(("\\" + c) in body for c in "bfnrt/"):
        kinds.append("short-escape")
    if any(ord(c) < 0x20 or ord(c) == 0x7F for c in body):
        kinds.append("raw-control")
    if any(ord(c) > 0x7F for c in body):
        kinds.append("non-ascii")
    return lit[0] + "/" + ("+".join(kinds) or "plain")


# ------------------------------------------------------------------ numbers


def int_spellings() -> list[tuple[int, str]]:
    vals = set(range(0, 65))
    for k in range(0, 71):
        vals |= {2**k, 2**k + 1, 2**k - 1}
    for k in range(0, 41):
        vals |= {10**k, 10**k + 1, 10**k - 1}
    out = []
    for v in sorted(vals):
        for sign in (1, -1):
            n = v * sign
            if n == 0 and sign == -1:
                continue
            out.append((n, str(n)))
    # exponent spellings: m e k with exact integer value
    for m in (1, 2, 15, -3, 123456789):
        for k in (0, 1, 2, 5, 16, 20, 30):
            for e in ("e", "E", "e+", "E+"):
                out.append((m * 10**k, f"{m}{e}{k}"))
    # long mantissas (1..45 digits, three digit patterns) with small exponents: the value is exact whatever the length
    for nd in range(1, 46):
        for digits in (("1234567890" * 5)[:nd], "9" * nd, "1" + "0" * (nd - 2) + "7" if nd > 1 else "7"):
            for k in (0, 1, 3):
                for sign in ("", "-"):
                    out.append((int(sign + digits) * 10**k, f"{sign}{digits}e{k}"))
    return out


def float_spellings() -> list[str]:
    out = []
    for a in ("0", "1", "12", "-7", "123456789"):
        for b in ("0", "5", "25", "000001", "123456789012345678"):
            out.append(f"{a}.{b}")
            for e in ("e2", "E-3", "e+10", "e-10", "E15", "e16", "e-7"):
                out.append(f"{a}.{b}{e}")
    for a in ("1", "25", "-3"):
        for e in ("e-1", "E-2", "e-10"):
            out.append(f"{a}{e}")
    return out


NUM_SITES = ["output", "assign", "if-eq", "filter-arg", "range", "ternary-cond", "when", "for-limit"]


def check_int(expected: int, sp: str, site: str, res: ShardResult | None) -> list[tuple[str, Any, Any, Any]]:
    out: list[tuple[str, Any, Any, Any]] = []
    data: dict[str, Any] = {"v": expected}
    if site == "output":
        src, want = "{{ " + sp + " }}", str(expected)
    elif site == "assign":
        src, want = "{% assign x = " + sp + " %}{{ x | json }}", json.dumps(expected)
    elif site == "if-eq":
        src, want = "{% if " + sp + " == v and v == " + sp + " and " + sp + " <= v %}yes{% else %}no{% endif %}", "yes"
    elif site == "filter-arg":
        src, want = "{{ 0 | plus: " + sp + " }}", str(expected)
    elif site == "range":
        if not (-50 <= expected <= 50) or "e" in sp.lower():
            return out
        src, want = "{{ (" + sp + ".." + sp + ") | join: ',' }}", str(expected)
    elif site == "ternary-cond":
        src, want = "{{ 'yes' if v == " + sp + " else 'no' }}", "yes"
    elif site == "when":
        src, want = "{% case v %}{% when " + sp + " %}yes{% else %}no{% endcase %}", "yes"
    else:
        if not (0 <= expected <= 4):
            return out
        src, want = "{% for i in (1..9) limit: " + sp + " %}x{% endfor %}", "x" * expected
    env = impl.make_env()
    try:
        got = env.from_string(src).render(**data)
    except LiquidError as e:
        got = f"{type(e).__name__}: {e.message}"
    except Exception as e:  # noqa: BLE001
        got = f"FOREIGN {type(e).__name__}: {e}"
    if res is not None:
        res.evaluations += 1
        res.outcomes.add(h64([site, got == want]))
        if abs(expected) > 64 or "e" in sp.lower():
            res.nontrivial.add(h64(src))
    if got != want:
        mag = "beyond-2^53" if abs(expected) > 2**53 else "small"
        spk = "exponent" if "e" in sp.lower() else "plain"
        out.append((f"C20:integer-literal-value-differs:{site}:{spk}:{mag}", {"site": site, "source": src, "spelling": sp}, want, got))
    return out


def check_float(sp: str, site: str, res: ShardResult | None) -> list[tuple[str, Any, Any, Any]]:
    out: list[tuple[str, Any, Any, Any]] = []
    expected = float(sp)
    if site == "output":
        src = "{{ " + sp + " | json }}"
    elif site == "assign":
        src = "{% assign x = " + sp + " %}{{ x | json }}"
    elif site == "if-eq":
        src = "{% if " + sp + " == v %}" + json.dumps(expected) + "{% else %}\"no\"{% endif %}"
    else:
        return out
    env = impl.make_env()
    try:
        rendered = env.from_string(src).render(v=expected)
        got: Any = json.loads(rendered)
    except LiquidError as e:
        got = f"{type(e).__name__}: {e.message}"
    except Exception as e:  # noqa: BLE001
        got = f"FOREIGN {type(e).__name__}: {e}"
    if res is not None:
        res.evaluations += 1
        res.nontrivial.add(h64(src))
        res.outcomes.add(h64([site, isinstance(got, float)]))
    ok = isinstance(got, float) and got == expected and Decimal(repr(got)) == Decimal(repr(expected))
    if not ok:
        out.append((f"C20:float-literal-value-differs:{site}:{'exp' if 'e' in sp.lower() else 'plain'}", {"site": site, "source": src, "spelling": sp}, expected, got))
    return out


# ------------------------------------------------------------------ json

JSON_ATOMS: list[Any] = [None, True, False, 0, 1, -1, 2**53 + 1, 10**20, 1.5, -2.5, 0.1, 1e16, 1e-7, "", "a", "B c", 'q"uote', "back\\slash", "é", "\U0001f600", "\n\t", "\x1f", "</script>", "  "]


def json_values() -> list[Any]:
    vals: list[Any] = list(JSON_ATOMS)
    vals += [[], {}, [1, 2, 3], ["b", "a", "a"], {"a": 1, "size": "S"}]
    for a in JSON_ATOMS:
        vals.append([a])
        vals.append({"k": a})
        vals.append([a, [a], {"k": a}])
    for a, b in itertools.product(JSON_ATOMS[:12], repeat=2):
        vals.append({"x": a, "y é": [b]})
    return vals


def check_json(val: Any, indent: Any, res: ShardResult | None) -> list[tuple[str, Any, Any, Any]]:
    out: list[tuple[str, Any, Any, Any]] = []
    src = "{{ v | json" + ("" if indent is None else f": {indent}") + " }}"
    env = impl.make_env()
    try:
        rendered = env.from_string(src).render(v=val)
        got = json.loads(rendered)
    except LiquidError as e:
        got = f"{type(e).__name__}: {e.message}"
    except Exception as e:  # noqa: BLE001
        got = f"FOREIGN {type(e).__name__}: {e}"
    if res is not None:
        res.evaluations += 1
        res.nontrivial.add(h64([repr(val), indent]))
    same = got == val and json.dumps(got, sort_keys=True) == json.dumps(val, sort_keys=True)
    if not same:
        out.append((f"C20:json-does-not-decode-to-input:indent={indent is not None}", {"value": repr(val), "source": src}, repr(val), repr(got)))
    return out


# ------------------------------------------------------------------ harness interface

_SP: dict[str, Any] = {}


def _space(tier: str) -> dict[str, Any]:
    if _SP.get("tier") == tier:
        return _SP
    cases: list[tuple] = []
    long_len = 3 if tier == "quick" else 4
    for quote in ("'", '"'):
        w2 = words(2, quote)
        for intended, lit in w2:
            for site in SITES:
                cases.append(("s", site, intended, lit))
        units = spelled_units(quote)
        if tier == "quick":
            # length 3 over a reduced set of units (one raw + one escaped spelling per class) at the output site
            reduced = []
            seen = set()
            for ch, sp in units:
                key = (ch, sp.startswith("\\"))
                if key not in seen:
                    seen.add(key)
                    reduced.append((ch, sp))
            pool = reduced
        else:
            pool = units
        for n in range(3, long_len + 1):
            if n == 4:
                pool = [u for i, u in enumerate(pool) if i % 2 == 0]
            for combo in itertools.product(pool, repeat=n):
                if any(s1 == "$" and s2 == "{" for (_c1, s1), (_c2, s2) in zip(combo, combo[1:])):
                    continue
                cases.append(("s", "output", "".join(c for c, _ in combo), quote + "".join(s for _, s in combo) + quote))
    # code-point sweep: the first, a middle and the last code point of every plane (surrogates excluded), literal and as
    # \u escapes (a surrogate pair above the BMP), alone and between two ASCII letters, at every site
    for plane in range(0, 17):
        for low in (0x0000, 0x0001, 0x7A5B, 0xFFFE, 0xFFFF) if plane else (0x00A0, 0x0800, 0xD7FF, 0xE000, 0xFFFD):
            ch = chr((plane << 16) | low)
            for quote in ("'", '"'):
                for sp in (ch, _u(ch), _u(ch, True)):
                    for site in SITES:
                        cases.append(("s", site, ch, quote + sp + quote))
                    cases.append(("s", "output", "a" + ch + "z", quote + "a" + sp + "z" + quote))
    for n, sp in int_spellings():
        for site in NUM_SITES:
            cases.append(("i", site, n, sp))
    for sp in float_spellings():
        for site in ("output", "assign", "if-eq"):
            cases.append(("f", site, sp))
    for v in json_values():
        for indent in (None, 2, "'1'", 0):
            cases.append(("j", v, indent))
    _SP.update(tier=tier, cases=cases)
    return _SP


def plan(tier: str, seed: int):
    sp = _space(tier)
    n = len(sp["cases"])
    shards = [(tier, lo, hi) for lo, hi in chunks(n, max(16, n // 4000))]
    kinds: dict[str, int] = {}
    for c in sp["cases"]:
        kinds[c[0]] = kinds.get(c[0], 0) + 1
    meta = {
        "space_size": n,
        "subspaces": {"string-literals": kinds.get("s", 0), "integer-literals": kinds.get("i", 0), "float-literals": kinds.get("f", 0), "json-values": kinds.get("j", 0)},
        "bounds": {"word_len_all_sites": 2, "word_len_output_site": 3 if tier == "quick" else 4, "sites": len(SITES), "char_classes": len(char_table())},
    }
    return shards, meta


def _run_case(c: tuple, res: ShardResult | None) -> list[tuple[str, Any, Any, Any]]:
    if c[0] == "s":
        return check_string(c[1], c[2], c[3], res)
    if c[0] == "i":
        return check_int(c[2], c[3], c[1], res)
    if c[0] == "f":
        return check_float(c[2], c[1], res)
    return check_json(c[1], c[2], res)


def run_shard(shard) -> ShardResult:
    tier, lo, hi = shard
    cases = _space(tier)["cases"]
    res = ShardResult()
    for i in range(lo, hi):
        res.cases += 1
        for sig, case, exp, obs in _run_case(cases[i], res):
            res.violation(sig, {"tier": tier, "index": i, **case}, exp, obs)
    if lo % 11 == 0:
        c = cases[lo]
        res.samples.append([str(x)[:80] for x in c])
    return res


def replay(case: dict[str, Any]) -> list[dict[str, Any]]:
    res = ShardResult()
    c = _space(case.get("tier", "quick"))["cases"][case["index"]]
    for sig, cc, exp, obs in _run_case(c, None):
        res.violation(sig, case, exp, obs)
    return res.violations
