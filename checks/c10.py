"""C10 — templates may shadow caller data but never change it; lookup precedence holds.

(a) every registered filter x every container reachable in the data x argument tuples from the value domain,
    applied directly and through assign / for (offset, limit, reversed) / include..for / render..for / tablerow /
    cycle / case / lambdas / concat with the same container on both sides, with the data supplied at all four entry
    points (environment globals, template globals, loader matter, render arguments); renders that fail are included.
    Oracle: a structural deep snapshot (type, value, order, identity-free) of every supplied object before == after.
(b) for a name in {now, today, v}: every subset of the namespace layers {block scope (with / for), local (assign /
    capture), render argument, matter, template global, environment global, built-in, counter}, each holding a
    distinct value, probed inside and after the block, in the template and in an included partial.
    Oracle: the value rendered is that of the innermost present layer in the documented order.
"""

from __future__ import annotations

import itertools
from collections import defaultdict
from collections.abc import Mapping
from collections.abc import Sequence
from typing import Any

from liquid2 import CachingDictLoader
from liquid2 import DictLoader
from liquid2.exceptions import LiquidError
from liquid2.loader import TemplateSource

from mc import impl
from mc.harness import ShardResult
from mc.harness import chunks
from mc.harness import h64

ID = "C10"
LEVEL = "exploration"
ENGINES = ["E1 spaces", "deep snapshots"]
RULE = (
    "(a) filters x container paths x argument values x sites x 4 data entry points; non-trivial when the render "
    "succeeded and actually read the container (output depends on it) or the filter raised after receiving it; "
    "(b) all layer subsets x 3 names x 4 probe positions; non-trivial when >= 2 layers are present; distinct by case"
)
LEVEL_TEXT = (
    "Bounded-exhaustive exploration over filters x reachable containers x arguments x sites x entry points with a "
    "before/after deep-snapshot oracle (no expected outputs), and complete enumeration of the 2^7 layer subsets for "
    "the precedence order against the documented order."
)
LEVEL_NOTE = (
    "Containers and argument values are those of the stated domain; user drops are snapshotted through their own "
    "storage; identity of nested objects is not part of the snapshot (values, types and order are)."
)
TECHNIQUE = "bounded-exhaustive enumeration of filter applications / namespace-layer subsets with deep before/after snapshots and a documented-order oracle"
ASSUMPTIONS = ["the snapshot sees every object the harness supplied (the harness owns the drop classes)"]


# ------------------------------------------------------------------ data


class SeqDrop(Sequence):  # type: ignore[type-arg]
    def __init__(self, items: list[Any]) -> None:
        self.items = items

    def __getitem__(self, i: Any) -> Any:
        return self.items[i]

    def __len__(self) -> int:
        return len(self.items)


class MapDrop(Mapping):  # type: ignore[type-arg]
    def __init__(self, d: dict[str, Any]) -> None:
        self.d = d

    def __getitem__(self, k: Any) -> Any:
        return self.d[k]

    def __len__(self) -> int:
        return len(self.d)

    def __iter__(self):  # noqa: ANN204
        return iter(self.d)


def make_data() -> dict[str, Any]:
    return {
        "lst": [3, 1, 2, 1],
        "strs": ["b", "a", "C", "a"],
        "nested": [[2, 1], [3, [5, 4]], []],
        "tup": (2, 1, 3),
        "hash": {"b": 2, "a": 1, "list": [2, 1]},
        "objs": [{"k": 2, "t": "x"}, {"k": 1}, {"k": 2, "t": None}, {"j": 0}],
        "rng": range(1, 4),
        "s": "b,a c",
        "sdrop": SeqDrop([3, 1, 2]),
        "mdrop": MapDrop({"z": [2, 1], "a": 1}),
        "mixed": [1, "a", None, True, {"k": 1}, [1]],
        "num": 5,
        "nil": None,
        # mappings that create an entry when a missing key is looked up with []
        "ddict": defaultdict(list, {"k": [2, 1], "a": 1}),
        "drows": [defaultdict(int, {"k": 2}), defaultdict(int, {"k": 1, "t": 5})],
    }


PATHS = ["lst", "strs", "nested", "tup", "hash", "hash.list", "objs", "rng", "s", "sdrop", "mdrop", "mdrop.z", "mixed", "nested[1]", "objs[0]",
         "ddict", "drows", "ddict.nosuch", "drows[0].nosuch"]

ARGVALS = ["", "1", "0", "-1", "'k'", "'a'", "','", "nil", "true", "lst", "hash", "objs", "x => x.k", "x => x", "(x, i) => i", "2, 1", "'k', 2", "'a', 'b'"]


def snapshot(x: Any, depth: int = 0) -> Any:
    if depth > 8:
        return "<deep>"
    if isinstance(x, SeqDrop):
        return ("SeqDrop", snapshot(x.items, depth + 1))
    if isinstance(x, MapDrop):
        return ("MapDrop", snapshot(x.d, depth + 1))
    if isinstance(x, dict):
        return ("dict", tuple((k, snapshot(v, depth + 1)) for k, v in x.items()))
    if isinstance(x, list):
        return ("list", tuple(snapshot(v, depth + 1) for v in x))
    if isinstance(x, tuple):
        return ("tuple", tuple(snapshot(v, depth + 1) for v in x))
    if isinstance(x, range):
        return ("range", x.start, x.stop, x.step)
    return (type(x).__name__, repr(x))


class MatterLoader(DictLoader):
    def __init__(self, templates: dict[str, str], matter: dict[str, Any]) -> None:
        super().__init__(templates)
        self.matter = matter

    def get_source(self, env: Any, template_name: str, **kw: Any) -> TemplateSource:
        src = super().get_source(env, template_name, **kw)
        return TemplateSource(src.source, src.name, src.uptodate, self.matter)


class CachingMatterLoader(CachingDictLoader):
    def __init__(self, templates: dict[str, str], matter: dict[str, Any]) -> None:
        super().__init__(templates)
        self.matter = matter

    def get_source(self, env: Any, template_name: str, **kw: Any) -> TemplateSource:
        src = super().get_source(env, template_name, **kw)
        return TemplateSource(src.source, src.name, src.uptodate, self.matter)


LAYERS = ("e", "t", "m", "r")  # environment globals, template globals, matter, render arguments


def sites(path: str, f: str, args: str) -> list[str]:
    """Programs (with @ standing for the layer root) that apply filter f to the container at @.path."""
    x = "@." + path
    a = (": " + args) if args else ""
    return [
        "{{ " + x + " | " + f + a + " }}",
        "{% assign v = " + x + " | " + f + a + " %}{{ v }}{% assign w = v | " + f + a + " %}",
        "{% for i in " + x + " reversed limit: 2 offset: 1 %}{{ i | " + f + a + " }}{% endfor %}",
        "{% capture c %}{{ " + x + " | " + f + a + " | json }}{% endcapture %}{{ c | size }}",
    ]


def structural_sites(path: str) -> list[str]:
    x = "@." + path
    return [
        "{% for i in " + x + " %}{% assign i = 'changed' %}{{ i }}{% endfor %}",
        "{% for i in " + x + " reversed offset: 1 limit: 2 %}{{ i }}{% endfor %}{% for i in " + x + " offset: continue %}{{ i }}{% endfor %}",
        "{% include 'item' for " + x + " as it %}",
        "{% render 'item' for " + x + " as it %}",
        "{% render 'item' with " + x + " as it %}",
        "{% tablerow i in " + x + " cols: 2 %}{{ i }}{% endtablerow %}",
        "{% cycle " + x + ", 2 %}{% cycle " + x + ", 2 %}",
        "{% case " + x + " %}{% when " + x + " %}same{% else %}other{% endcase %}",
        "{{ " + x + " | concat: " + x + " | reverse | sort | uniq | compact | join: ',' }}",
        "{% assign " + path.split(".")[0].split("[")[0] + " = 'shadow' %}{{ " + path.split(".")[0].split("[")[0] + " }}",
        "{% assign @ = 'shadowed-root' %}{{ @ }}",
        "{% capture @ %}cap{% endcapture %}{{ @ }}",
        "{% with lst: " + x + " %}{{ lst | reverse | first }}{% endwith %}",
        "{% macro mm p %}{% assign p = p | reverse %}{{ p | first }}{% endmacro %}{% call mm " + x + " %}",
        "{{ " + x + " | map: y => y | sort | json }}",
        "{{ " + x + " | where: y => y | size }}",
        "{{ " + x + " | sort_natural | first }}{{ " + x + " | sort_numeric | last }}",
        "{{ " + x + ".first }}{{ " + x + ".last }}{{ " + x + ".size }}{{ " + x + "[0] }}{{ " + x + "[-1] }}",
    ]


def run_program(src: str, res: ShardResult | None) -> list[tuple[str, Any, Any, Any]]:
    """Render `src` with @ replaced by each layer root; data supplied at all four entry points at once."""
    out: list[tuple[str, Any, Any, Any]] = []
    for layer in LAYERS:
        data = {k: make_data() for k in LAYERS}
        before = {k: snapshot(v) for k, v in data.items()}
        partials = {"item": "[{{ it }}{% assign it = 'x' %}]", "main": src.replace("@", layer)}
        loader = MatterLoader(partials, {"m": data["m"]})
        env = impl.make_env(loader=loader, shopify=True, globals={"e": data["e"]})
        kind = "ok"
        try:
            t = env.get_template("main", globals={"t": data["t"]})
            rendered = t.render(r=data["r"])
        except LiquidError as e:
            kind, rendered = "liquid", type(e).__name__
        except Exception as e:  # noqa: BLE001  (totality is C02's subject; a foreign error must still not mutate)
            kind, rendered = "foreign", type(e).__name__
        after = {k: snapshot(v) for k, v in data.items()}
        if res is not None:
            res.evaluations += 1
            res.outcomes.add(h64([kind, rendered if kind != "ok" else len(rendered) > 0]))
            if kind != "ok" or rendered:
                res.nontrivial.add(h64([src, layer]))
        for k in LAYERS:
            if before[k] != after[k]:
                diff = _first_diff(before[k], after[k])
                out.append((f"C10:data-mutated:{_what(src)}", {"source": src.replace("@", layer), "layer_read": layer, "layer_changed": k}, diff[0], diff[1]))
    return out


def _what(src: str) -> str:
    import re

    fs = re.findall(r"\|\s*([a-z_]+)", src)
    tags = re.findall(r"\{%\s*([a-z]+)", src)
    return (fs[0] if fs else "") + "/" + (tags[0] if tags else "output")


def _first_diff(a: Any, b: Any) -> tuple[Any, Any]:
    if isinstance(a, tuple) and isinstance(b, tuple) and len(a) == len(b):
        for x, y in zip(a, b):
            if x != y:
                return _first_diff(x, y)
    return (repr(a)[:200], repr(b)[:200])


# ------------------------------------------------------------------ (b) precedence

ORDER = ("block", "local", "arg", "matter", "tglobal", "eglobal", "builtin", "counter")


def precedence_cases() -> list[dict[str, Any]]:
    cases = []
    for name in ("v", "now", "today"):
        optional = [l for l in ORDER if l != "builtin"]
        for r in range(len(optional) + 1):
            for sub in itertools.combinations(optional, r):
                layers = set(sub)
                if name != "v":
                    layers.add("builtin")
                for block_kind in (("with", "for") if "block" in layers else ("none",)):
                    for local_kind in (("assign", "capture") if "local" in layers else ("none",)):
                        cases.append({"name": name, "layers": sorted(layers, key=ORDER.index), "block": block_kind, "local": local_kind})
                        # the same subset with every caller-supplied mapping a defaultdict: a lookup that misses a layer
                        # must not insert the name into it (and the layers below must still be consulted)
                        if name == "v" and local_kind != "capture" and block_kind != "for":
                            cases.append({"name": name, "layers": sorted(layers, key=ORDER.index), "block": block_kind, "local": local_kind, "dd": True})
                            # ... and the same subset served from a caching loader's cache (second and third request of the name)
                            cases.append({"name": name, "layers": sorted(layers, key=ORDER.index), "block": block_kind, "local": local_kind, "cached": True})
                            # ... and found by the SECOND loader of a (caching) choice loader, loaded and rendered asynchronously
                            for ck in ("choice", "caching-choice"):
                                cases.append({"name": name, "layers": sorted(layers, key=ORDER.index), "block": block_kind, "local": local_kind, "choice": ck})
                        # the same subset with ONE layer binding the name to nil: a nil binding is a binding
                        if name == "v" and local_kind != "capture":
                            for nl in sorted(layers & {"block", "local", "arg", "matter", "tglobal", "eglobal"}, key=ORDER.index):
                                cases.append({"name": name, "layers": sorted(layers, key=ORDER.index), "block": block_kind, "local": local_kind, "nil_layer": nl})
    return cases


def check_precedence(case: dict[str, Any], res: ShardResult | None) -> list[tuple[str, Any, Any, Any]]:
    out: list[tuple[str, Any, Any, Any]] = []
    n = case["name"]
    layers = case["layers"]
    nil = case.get("nil_layer")

    def val(layer: str, text: str) -> Any:
        return None if layer == nil else text

    probe = "⟨{{ " + n + " }}⟩"
    # the name read as a FREE name of a lambda body (the lambda is evaluated by a context-aware filter)
    lprobe = "⟨{{ one | map: q => " + n + " | first }}⟩"
    pre = ""
    if "counter" in layers:
        pre += "{% increment " + n + " %}{% increment " + n + " %}|"  # counter value is now 2
    if "local" in layers:
        if nil == "local":
            pre += "{% assign " + n + " = nil %}"
        else:
            pre += ("{% assign " + n + " = 'LOCAL' %}") if case["local"] == "assign" else ("{% capture " + n + " %}LOCAL{% endcapture %}")
    inner = probe + "{% include 'probe' %}"
    if "block" in layers:
        if case["block"] == "with":
            body = "{% with " + n + ": " + ("nil" if nil == "block" else "'BLOCK'") + " %}" + inner + "{% endwith %}"
        else:
            body = "{% for " + n + " in blockvals %}" + inner + "{% endfor %}"
    else:
        body = inner
    # after the block: direct probe, included probe, lambda probe, lambda probe in a RENDERED partial (isolated scope),
    # then a lambda whose parameter has the probed name and which is left early (has), then the direct probe again
    src = pre + body + probe + "{% include 'probe' %}" + lprobe + "{% render 'lprobe' %}{% assign zz = one | has: " + n + " => true %}" + probe
    src += "{% assign zz = one | find: (" + n + ", zi) => true %}{% assign zz = one | find_index: (zj, " + n + ") => true %}" + probe
    # three isolated scopes deep, the outermost of them given a tag argument of the probed name: the innermost sees the
    # data the render started with, through a partial and through a macro defined there
    src += "{% render 'iso_a', " + n + ": 'TAGARG' %}"
    dd = (lambda m: defaultdict(list, m)) if case.get("dd") else (lambda m: m)
    matter = dd({n: val("matter", "MATTER")} if "matter" in layers else {})
    eglobals = dd({n: val("eglobal", "EGLOBAL"), "one": ["x"]} if "eglobal" in layers else {"one": ["x"]})
    tglobals = dd({n: val("tglobal", "TGLOBAL")}) if "tglobal" in layers else (dd({}) if case.get("dd") else None)
    tmpls = {"main": src, "probe": "⟪{{ " + n + " }}⟫", "lprobe": "⟪{{ one | map: q => " + n + " | first }}⟫", "iso_a": "{% render 'iso_b' %}",
             "iso_b": "{% render 'probe' %}{% macro mq %}⟪{{ " + n + " }}⟫{% endmacro %}{% call mq %}"}
    loader: Any = (CachingMatterLoader if case.get("cached") else MatterLoader)(tmpls, matter)
    if case.get("choice"):
        from liquid2 import CachingChoiceLoader
        from liquid2 import ChoiceLoader
        from liquid2 import DictLoader

        loader = (CachingChoiceLoader if case["choice"] == "caching-choice" else ChoiceLoader)([DictLoader({"unrelated": "u"}), loader])
    env = impl.make_env(loader=loader, globals=eglobals)
    before = [snapshot(matter), snapshot(eglobals), snapshot(tglobals)]
    try:
        args: dict[str, Any] = {"blockvals": [val("block", "BLOCK")]}
        if "arg" in layers:
            args[n] = val("arg", "ARG")
        if case.get("choice"):
            from mc.vloop import run_solo

            async def go() -> str:
                t_ = await env.get_template_async("main", globals=tglobals)
                return await t_.render_async(**args)

            kind_, val_ = run_solo(go())
            if kind_ != "ok":
                raise val_
            rendered = val_
        else:
            t = env.get_template("main", globals=tglobals)
            if case.get("cached"):
                env.get_template("main", globals={"other": 1})
                t = env.get_template("main", globals=tglobals)  # a cache hit, bound to this caller's globals
            rendered = t.render(**args)
    except LiquidError as e:
        out.append((f"C10:precedence-render-fails:{type(e).__name__}", {**case, "source": src}, "renders", type(e).__name__))
        return out
    if res is not None:
        res.evaluations += 1
        if len(layers) >= 2:
            res.nontrivial.add(h64(case))
    after = [snapshot(matter), snapshot(eglobals), snapshot(tglobals)]
    for which, b, a in zip(("matter", "environment-globals", "template-globals"), before, after):
        if a != b:
            out.append((f"C10:precedence-layer-mutated:{which}", {**case, "source": src}, b, a))
    import re

    vals = re.findall(r"[⟨⟪]([^⟩⟫]*)[⟩⟫]", rendered)
    # four probes: inside block (template, partial), after block (template, partial)
    def w(ls: list[str]) -> str:
        x = _winner(ls, n)
        return "undefined" if x == nil else x  # (a nil binding renders like an undefined name: as nothing)

    want_inside = w(layers)
    want_after = w([l for l in layers if l != "block"])
    want_isolated = w([l for l in layers if l not in ("block", "local", "counter")])
    wants = [want_inside, want_inside, want_after, want_after, want_after, want_isolated, want_after, want_after, want_isolated, want_isolated]
    where = ["inside-block", "inside-block-partial", "after-block", "after-block-partial", "lambda-free-name", "lambda-free-name-in-rendered-partial", "after-early-exit-lambda",
             "after-early-exit-two-parameter-lambda", "third-isolated-scope", "macro-in-second-isolated-scope"]
    if res is not None:
        res.outcomes.add(h64([want_inside, want_after, want_isolated]))
    if len(vals) != len(wants):
        out.append(("C10:precedence-probe-count", {**case, "source": src}, len(wants), rendered))
        return out
    for v, w, wh in zip(vals, wants, where):
        got = _classify_value(v)
        if got != w:
            out.append((f"C10:precedence:{w}-expected-got-{got}", {**case, "where": wh, "source": src}, w, {"value": v, "output": rendered}))
    return out


def _winner(layers: list[str], name: str) -> str:
    for l in ORDER:
        if l in layers:
            return l
    return "undefined"


def _classify_value(v: str) -> str:
    import re

    m = {"BLOCK": "block", "LOCAL": "local", "ARG": "arg", "MATTER": "matter", "TGLOBAL": "tglobal", "EGLOBAL": "eglobal", "": "undefined", "2": "counter"}
    if v in m:
        return m[v]
    if re.match(r"\d{4}-\d\d-\d\d", v):
        return "builtin"
    return "other:" + v[:20]


# ------------------------------------------------------------------ harness interface

_SP: dict[str, Any] = {}


def _programs(tier: str) -> list[str]:
    if _SP.get("tier") == tier:
        return _SP["progs"]
    env = impl.make_env(shopify=True)
    filters = sorted(env.filters)
    progs: list[str] = []
    argvals = ARGVALS if tier != "quick" else ARGVALS[:13]
    paths = PATHS if tier != "quick" else PATHS[:12]
    for f in filters:
        for p in paths:
            for a in argvals:
                ss = sites(p, f, a)
                progs.extend(ss if tier != "quick" else ss[:2])
    for p in PATHS:
        progs.extend(structural_sites(p))
    _SP.update(tier=tier, progs=progs)
    return progs


def plan(tier: str, seed: int):
    progs = _programs(tier)
    pc = precedence_cases()
    shards: list[Any] = [("a", tier, lo, hi) for lo, hi in chunks(len(progs), 200)]
    shards += [("b", tier, lo, hi) for lo, hi in chunks(len(pc), 16)]
    meta = {
        "space_size": len(progs) + len(pc),
        "subspaces": {"filter/structural programs": len(progs), "precedence cases": len(pc)},
        "bounds": {"layers": list(ORDER), "entry_points": list(LAYERS), "paths": len(PATHS), "argument_values": len(ARGVALS)},
    }
    return shards, meta


def run_shard(shard) -> ShardResult:
    res = ShardResult()
    kind, tier, lo, hi = shard
    if kind == "a":
        progs = _programs(tier)
        for i in range(lo, hi):
            res.cases += 1
            for sig, case, exp, obs in run_program(progs[i], res):
                res.violation(sig, {"part": "a", **case}, exp, obs, repro=_repro(case["source"]))
        if lo % 9 == 0:
            res.samples.append({"program": progs[lo].replace("@", "r"), "entry_points": list(LAYERS)})
    else:
        pc = precedence_cases()
        for i in range(lo, hi):
            res.cases += 1
            for sig, case, exp, obs in check_precedence(pc[i], res):
                res.violation(sig, {"part": "b", **case}, exp, obs)
        res.samples.append({"precedence_case": pc[lo]})
    return res


def _repro(src: str) -> str:
    return (
        "# stand-alone reproduction (C10): data is deep-equal before and after\nimport copy\n"
        "import sys; sys.path.insert(0, '/verif')\nfrom checks import c10\n"
        f"print(c10.run_program({src!r}.replace('e.', '@.').replace('t.', '@.').replace('m.', '@.').replace('r.', '@.'), None))\n"
    )


def replay(case: dict[str, Any]) -> list[dict[str, Any]]:
    res = ShardResult()
    if case["part"] == "a":
        src = case["source"]
        l = case["layer_read"]
        # restore the placeholder
        generic = src.replace(l + ".", "@.")
        for sig, c, exp, obs in run_program(generic, None):
            res.violation(sig, case, exp, obs)
    else:
        c = {k: case[k] for k in ("name", "layers", "block", "local", "nil_layer", "dd", "cached", "choice") if k in case}
        for sig, cc, exp, obs in check_precedence(c, None):
            res.violation(sig, case, exp, obs)
    return res.violations
