"""C17 — tokens tile the source and every reported position lies inside it.

Enumerated: (a) every sequence of <= k tokens over a Liquid-biased alphabet, joined
tightly and with single spaces; (b) a corpus (repo compliance templates + printed
generated programs + hand-written rich templates) with every prefix and every
single-edit mutant (delete a char / insert a token of the alphabet at every offset).
Oracle: tiling, self-relex of every top-level token, nesting/order of expression
tokens, bounds of every token / AST node token / error token, line info consistent.
"""

from __future__ import annotations

import itertools
from typing import Any

from liquid2 import RenderContext
from liquid2.exceptions import LiquidError
from liquid2.messages import line_number
from liquid2.token import CommentToken
from liquid2.token import ContentToken
from liquid2.token import ErrorToken
from liquid2.token import LinesToken
from liquid2.token import OutputToken
from liquid2.token import PathToken
from liquid2.token import RangeToken
from liquid2.token import RawToken
from liquid2.token import TagToken
from liquid2.token import TemplateStringToken
from liquid2.token import Token
from liquid2.token import TokenType

from mc import impl
from mc.harness import ShardResult
from mc.harness import TimeBudget
from mc.harness import chunks
from mc.harness import cpu_budget
from mc.harness import h64

ID = "C17"
LEVEL = "exploration"
RULE = (
    "every token sequence of length<=k over SIGMA (tight and space-joined) plus every prefix and "
    "single-edit mutant of a corpus; a case is non-trivial when it contains markup (tokenizes to "
    "something other than a single content token) or raises a positioned error; distinct by source text"
)
LEVEL_TEXT = (
    "Bounded-exhaustive exploration of the real lexer/parser: every source in the stated finite space is tokenized, "
    "parsed and rendered, and the tiling/position oracle is evaluated on every one. Right level because the property "
    "is a universal statement over source texts whose failures are local (a few characters around one markup boundary)."
)
LEVEL_NOTE = (
    "Trusts Python's str.splitlines as the line convention (the library's own); sources longer than the bound and "
    "characters outside the alphabet are not covered; a zero-width error at offset len(source) counts as inside (end of input)."
)
TECHNIQUE = "bounded-exhaustive enumeration of source texts (token sequences + all prefixes/single-edit mutants of a corpus) against a tiling/position oracle + all two-parse histories with the first error kept and re-read"
ENGINES = ["E1 spaces"]
ASSUMPTIONS = [
    "line/column convention is Python's str.splitlines (the convention the library itself uses)",
    "the library is executed in-process from /repo's working tree",
]

SIGMA = [
    "{{", "}}", "{%", "%}", "{#", "#}", "{%-", "-%}", "~}}", "'", '"', "\\", "$", "${", "}",
    "a", ".", "[", "]", "|", ":", ",", "=", "(", ")", "..", "1", "-1", "1e400", "1.5", "<", "==",
    "if", "endif", "for", "in", "endfor", "liquid", "raw", "endraw", "comment", "endcomment",
    "#", "\n", " ", "é", "x", "\r\n", "\U0001f600",
]  # fmt: skip

RICH = [
    "{% if a %}x{% elsif b %}y{% else %}z{% endif %}",
    "a{# c #}b{{ x }}{% # c %}{{ y }}{% comment %}q{% endcomment %}{{ z }}",
    "{# c #}\n{{ x }}\n{% # c\n # d %}\n{% assign a = 1 %}",
    "{% comment %}{% raw %}{% endcomment %}{% endraw %}{% endcomment %}{{ a }}",
    "{% liquid\n  assign a = 1\n  # note\n  comment\n  x\n  endcomment\n  echo a\n%}{{ a }}",
    "{% liquid if a\n echo 'x'\n endif %}",
    "{% raw %}{{ x }}{% endraw %}{{ y }}",
    "{%- raw -%} {{ x }} {%- endraw -%}{{ y }}",
    "{{ a.b[0]['c d'][e.f].g | f: 1, k: 'v', x => x.y | g }}",
    "{{ 'a${b}c${ d | e }f' }}{{ \"${x}\" }}",
    "{{ (1..a.b) | join: ', ' }}{% for i in (a..3) limit: 2 offset: continue reversed %}{{ i }}{% endfor %}",
    "{{ a if b == 1 and not c else d | f || g: 1 }}",
    "{% case a %}\n{% when 1, 2 or 3 %}x{% else %}y{% endcase %}",
    "{% include 'p' with a as b, c: 1 %}{% render 'p' for a as b %}",
    "{% macro m a, b: 1 %}{{ a }}{% endmacro %}{% call m 1, b: 2 %}",
    "{% with a: 1, b: x.y %}{{ a }}{% endwith %}",
    "{% capture a %}x{{ b }}{% endcapture %}{% cycle g: 1, 2 %}{% increment c %}{% decrement c %}",
    "{% extends 'p' %}{% block b required %}x{{ block.super }}{% endblock b %}",
    "{% translate x: 1 %}Hi {{ x }}{% plural %}His{% endtranslate %}",
    "{{ a | t: b: 1 }}\r\n{{ '\\u00e9\\n\\'' }}\n\U0001f600{{ \U0001f600x }}",
    "{% unless a %}x{% else %}y{% endunless %}{% echo a | upcase %}",
    "{{ a.1 }}{{ a.b.2.c }}{{ a[ 1 ] [ 'x' ] }}",
    "{{ x | where: 'a', 1 | map: (i, j) => i.b | sort: i => i.c }}",
    "{##} {## a # b ##}{{ x }}{#- c -#} {{- y -}} {%~ if a ~%}{%+ endif +%}",
    "{% assign x = 'a', 'b', c %}{% for i in 1, 2, 3 %}{{ i }}{% endfor %}",
    "{{ \"Hi ${ name | append: '!' } bye\" }}{{ \"x ${ 'in ${y} ner' } z\" }}",
    "{{ 'a ${ \"b\" } c ${ x | default: \"d ${ 'e' } f\" } g' }}{% assign s = \"${ 'p' }${ 'q' }\" %}",
    "{% extends 'p' %}\n\n{% block b %}\n  {{ 1 | divided_by: 0 }}{% endblock %}", "{% extends 'p' %}{% block b %}{{ block.super | nosuchfilter }}{% endblock %}",
    "{% extends 'p' %}{% block b %}x{% render 'nosuchpartial' %}{% endblock %}", "{% extends 'p' %}{% block b %}{% for i in 5 %}{% endfor %}{% endblock %}",
    "{% include 'lib' %}\n\n{% call m 1 %}", "{% include 'lib' %}{% call n %}", "{% include 'lib' %}{% for i in (1..2) %}{% call m i, y: 3 %}{% endfor %}",
    "{{ x }}\n{% if %}",
    "{% for %}",
    "text only",
    "",
]


def envs():
    return [
        ("default", impl.make_env(limits={"loop_iteration_limit": 1000, "output_stream_limit": 100000},
                                  templates={"p": "{{ a }}{% block b %}P{% endblock %}",
                                             "lib": "{# a library of macros #}\n{% macro m x, y: 2 %}\n\n  {{ x | divided_by: 0 }}{% endmacro %}{% macro n %}{% render 'nosuchpartial' %}{% endmacro %}"})),
        ("shorthand", impl.make_env(shorthand=True, limits={"loop_iteration_limit": 1000},
                                    templates={"p": "{{ a }}"})),
    ]


_ENVS = None


def get_envs():
    global _ENVS
    if _ENVS is None:
        _ENVS = envs()
    return _ENVS


# ------------------------------------------------------------------ oracle


def canon(tok: Any, base: int) -> Any:
    """Position-relative structural form of a token (for self-relex comparison)."""
    if isinstance(tok, Token):
        return ("T", tok.type_.name, tok.value, tok.index - base)
    if isinstance(tok, PathToken):
        return ("P", tuple(canon(s, base) if isinstance(s, PathToken) else s for s in tok.path),
                tok.start - base, tok.stop - base)
    if isinstance(tok, RangeToken):
        return ("R", canon(tok.range_start, base), canon(tok.range_stop, base), tok.start - base, tok.stop - base)
    if isinstance(tok, TemplateStringToken):
        return ("S", tok.type_.name, tuple(canon(t, base) for t in tok.template), tok.start - base, tok.stop - base)
    if isinstance(tok, OutputToken):
        return ("O", tok.wc, tuple(canon(t, base) for t in tok.expression), tok.start - base, tok.stop - base)
    if isinstance(tok, LinesToken):
        return ("L", tok.wc, tuple(canon(t, base) for t in tok.statements), tuple(tok.whitespace),
                tok.start - base, tok.stop - base)
    if isinstance(tok, TagToken):
        return ("G", tok.name, tok.wc, tuple(canon(t, base) for t in tok.expression), tok.start - base, tok.stop - base)
    if isinstance(tok, RawToken):
        return ("W", tok.wc, tok.text, tok.start - base, tok.stop - base)
    if isinstance(tok, CommentToken):
        return ("C", type(tok).__name__, tok.wc, tok.text, tok.hashes, tok.start - base, tok.stop - base)
    if isinstance(tok, ContentToken):
        return ("X", tok.text, tok.start - base, tok.stop - base)
    return ("?", repr(tok))


def _span_problems(tok: Any, lo: int, hi: int, n: int, out: list[str], where: str) -> None:
    """tok must satisfy lo <= start <= stop <= hi (and 0..n). Recurse into sub tokens."""
    s, e = tok.start, tok.stop
    if not (0 <= s <= e <= n):
        out.append(f"{where}:{type(tok).__name__} span [{s},{e}) outside source of length {n}")
        return
    if not (lo <= s and e <= hi):
        out.append(f"{where}:{type(tok).__name__} span [{s},{e}) outside enclosing span [{lo},{hi})")
    if isinstance(tok, Token):
        if tok.type_ not in (TokenType.EOI,) and tok.source[s:e] != tok.value:
            out.append(f"{where}:Token text {tok.source[s:e]!r} != value {tok.value!r}")
    elif isinstance(tok, PathToken):
        for seg in tok.path:
            if isinstance(seg, PathToken):
                _span_problems(seg, s, e, n, out, where + "/path")
    elif isinstance(tok, RangeToken):
        _span_problems(tok.range_start, s, e, n, out, where + "/range")
        _span_problems(tok.range_stop, s, e, n, out, where + "/range")
        if tok.range_start.stop > tok.range_stop.start:
            out.append(f"{where}: range bounds overlap or out of order")
    elif isinstance(tok, TemplateStringToken):
        _ordered(tok.template, s, e, n, out, where + "/tstr")
    elif isinstance(tok, (OutputToken, TagToken)):
        _ordered(tok.expression, s, e, n, out, where + "/expr")
    elif isinstance(tok, LinesToken):
        _ordered(tok.statements, s, e, n, out, where + "/lines")


def _ordered(toks: list[Any], lo: int, hi: int, n: int, out: list[str], where: str) -> None:
    prev_stop = lo
    for t in toks:
        _span_problems(t, lo, hi, n, out, where)
        if 0 <= t.start <= t.stop <= n:
            if t.start < prev_stop:
                out.append(f"{where}: {type(t).__name__} at {t.start} overlaps/precedes previous token ending at {prev_stop}")
            prev_stop = max(prev_stop, t.stop)


def _line_problems(tok: Any, out: list[str], where: str) -> None:
    src = tok.source
    if tok.start < 0 or not src:
        return
    try:
        ln = line_number(tok)
    except Exception as e:  # noqa: BLE001
        out.append(f"{where}: line_number raised {type(e).__name__}")
        return
    lines = src.splitlines(keepends=True)
    off = sum(len(x) for x in lines[: ln - 1])
    if not (off <= tok.start < off + len(lines[ln - 1])):
        out.append(f"{where}: line_number {ln} does not contain offset {tok.start}")


def _error_problems(e: LiquidError, sources: set[str], out: list[str], where: str) -> None:
    tok = e.token
    try:
        str(e)
        e.detailed_message()
        ctx = e.context()
    except Exception as x:  # noqa: BLE001
        out.append(f"{where}: rendering the error raised {type(x).__name__}: {x}")
        ctx = None
    if tok is None:
        return
    src = tok.source
    n = len(src)
    s, t = tok.start, tok.stop
    if isinstance(tok, Token) and tok.type_ == TokenType.EOI and tok.index < 0 and not src:
        return  # the end-of-input sentinel has no position (index -1, no source) by design
    if src not in sources:
        out.append(f"{where}: error token's source is not a source of this run")
        return
    if not (0 <= s <= t <= n):
        out.append(f"{where}: error position [{s},{t}) outside source of length {n}")
        return
    if n and s >= n and t > s:
        out.append(f"{where}: error position {s} is not inside the non-empty source of length {n}")
        return
    # an error raised by the lexer also carries the extent of the markup it was scanning
    ms, me = getattr(tok, "markup_start", None), getattr(tok, "markup_stop", None)
    if isinstance(ms, int) and isinstance(me, int) and ms >= 0 and not (0 <= ms <= s and t <= me <= n or (ms <= me <= n and ms <= s <= n)):
        out.append(f"{where}: error markup extent [{ms},{me}) does not lie inside the source of length {n} around the error at {s}")
        return
    if isinstance(me, int) and me > n:
        out.append(f"{where}: error markup extent ends at {me}, beyond the source of length {n}")
        return
    # a zero-width error at offset len(source) is the end-of-input position: allowed, and its
    # line information must address the end of the last line (checked below)
    if ctx is not None and n:
        lineno, col, _p, cur, _n = ctx
        lines = src.splitlines(keepends=True)
        off = sum(len(x) for x in lines[: lineno - 1])
        if off + col != s or not (1 <= lineno <= len(lines)):
            out.append(f"{where}: context() line {lineno} col {col} does not address offset {s}")
        elif lines[lineno - 1].rstrip() != cur:
            out.append(f"{where}: context() current line text is not the line containing the error")
        try:
            if s < n and line_number(tok) != lineno:
                out.append(f"{where}: messages.line_number disagrees with context()")
        except Exception as x:  # noqa: BLE001
            out.append(f"{where}: line_number raised {type(x).__name__}")


def _ast_problems(env: Any, template: Any, out: list[str]) -> int:
    """Every token carried by a node / expression lies inside its source. Returns nodes visited."""
    ctx = RenderContext(template)
    seen = 0
    stack = list(template.nodes)
    while stack:
        node = stack.pop()
        seen += 1
        toks = [node.token]
        try:
            exprs = list(node.expressions())
        except Exception:  # noqa: BLE001
            exprs = []
        estack = list(exprs)
        while estack:
            ex = estack.pop()
            toks.append(ex.token)
            try:
                estack.extend(ex.children())
            except Exception:  # noqa: BLE001
                pass
        for t in toks:
            if t is None:
                continue
            if isinstance(t, Token) and t.type_ == TokenType.EOI:
                continue
            n = len(t.source)
            if not (0 <= t.start <= t.stop <= n) or (n and t.start >= n):
                out.append(f"ast:{type(node).__name__}: token {type(t).__name__} span [{t.start},{t.stop}) not inside source of length {n}")
            else:
                _line_problems(t, out, f"ast:{type(node).__name__}")
        try:
            stack.extend(node.children(ctx, include_partials=False))
        except Exception:  # noqa: BLE001
            pass
    return seen


def check_source(env_name: str, env: Any, src: str, res: ShardResult | None, deep: bool = True) -> list[str]:
    """Return the list of problems for one source under one environment."""
    problems: list[str] = []
    n = len(src)
    nontrivial = False
    try:
        toks = env.tokenize(src)
    except LiquidError as e:
        _error_problems(e, {src}, problems, "tokenize-error")
        nontrivial = True
        toks = None
    except Exception as e:  # noqa: BLE001  (totality is C02's subject; positions are ours)
        toks = None
        if res is not None:
            res.count("foreign_exception_in_tokenize")
    if toks is not None:
        if n == 0:
            if toks:
                problems.append("tile: tokens for the empty source")
        else:
            if not toks:
                problems.append("tile: no tokens for a non-empty source")
            else:
                if toks[0].start != 0:
                    problems.append(f"tile: first token starts at {toks[0].start}")
                for a, b in zip(toks, toks[1:]):
                    if a.stop != b.start:
                        problems.append(
                            f"tile: {type(a).__name__} ends at {a.stop} but next {type(b).__name__} starts at {b.start}"
                        )
                if toks[-1].stop != n:
                    problems.append(f"tile: last token ends at {toks[-1].stop}, source length {n}")
        _ordered(toks, 0, n, n, problems, "top")
        if len(toks) != 1 or not isinstance(toks[0], ContentToken):
            nontrivial = bool(toks)
        # self-relex: each token's span lexed alone gives the same token
        for t in toks:
            if not (0 <= t.start <= t.stop <= n):
                continue
            piece = src[t.start : t.stop]
            try:
                alone = env.tokenize(piece)
            except Exception as e:  # noqa: BLE001
                problems.append(f"relex: span of {type(t).__name__} does not lex alone ({type(e).__name__})")
                continue
            if isinstance(t, ContentToken):
                # text may be split differently at a line end when it stands alone ('$' in the
                # content rule); the statement only requires the span to be the text scanned
                if t.text != piece or any(not isinstance(x, ContentToken) for x in alone) or "".join(
                    x.text for x in alone
                ) != piece:
                    problems.append("relex: span of ContentToken is not the content text it was scanned from")
            elif len(alone) != 1 or canon(alone[0], 0) != canon(t, t.start):
                problems.append(f"relex: span of {type(t).__name__} lexes alone to a different token")
        if deep:
            # parse + AST + render-time errors
            template = None
            try:
                template = env.from_string(src, name="main")
            except LiquidError as e:
                _error_problems(e, {src}, problems, "parse-error")
                nontrivial = True
            except Exception:  # noqa: BLE001
                if res is not None:
                    res.count("foreign_exception_in_parse")
            if template is not None:
                _ast_problems(env, template, problems)
                _message_line_problems(src, template, problems)
                sources = {src} | set(env.loader.templates.values())
                try:
                    template.render(a=[1, 2], b={"c": "d"}, x="s")
                except LiquidError as e:
                    _error_problems(e, sources, problems, "render-error")
                    # the template the error names must be the one whose source the position refers to
                    named = {"main": src, **env.loader.templates}.get(e.template_name or "")
                    if named is not None and e.token is not None and getattr(e.token, "source", named) != named:
                        problems.append("render-error: the error names a template whose source is not the one its position refers to")
                except Exception:  # noqa: BLE001
                    if res is not None:
                        res.count("foreign_exception_in_render")
    if res is not None and nontrivial:
        res.nontrivial.add(h64(src))
    return problems


def _line_of(src: str, offset: int) -> int:
    """1-based line of an offset, by the line conventions of str.splitlines (the ones error messages use)."""
    n, pos = 1, 0
    for line in src.splitlines(keepends=True):
        pos += len(line)
        if offset < pos:
            return n
        n += 1
    return n


def _message_line_problems(src: str, template: Any, problems: list[str]) -> None:
    """The line reported for a translatable message lies between the line its markup starts on and the line of its text."""
    from liquid2.messages import extract_from_template

    try:
        messages = list(extract_from_template(template))
    except Exception:  # noqa: BLE001  (whether extraction succeeds is C15's subject)
        return
    for m in messages:
        text = m.message[0] if isinstance(m.message[0], str) else m.message[1]
        if not isinstance(text, str) or not text or "\n" in text or src.count(text) != 1:
            continue
        o = src.find(text)
        start = max(src.rfind("{{", 0, o), src.rfind("{%", 0, o), 0)
        tr = src.rfind("translate", 0, o)
        if tr >= 0 and src.rfind("{%", 0, tr) >= 0 and src.find("endtranslate", tr, o) < 0:
            start = min(start, src.rfind("{%", 0, tr))
        lo, hi = _line_of(src, start), _line_of(src, o)
        if not lo <= m.lineno <= hi:
            problems.append(f"message-line: a translatable message is reported on line {m.lineno}, its markup spans lines {lo}-{hi}")
        for c in m.comments:
            # a translator comment belongs to the message on the line after it (or on its own line)
            co = src.find(c)
            if co >= 0 and src.count(c) == 1 and not (_line_of(src, co) <= m.lineno <= _line_of(src, co) + 1 or lo <= _line_of(src, co) + 1 <= hi):
                problems.append("message-line: a translator comment is attached to a message that does not follow it")


def message_line_sources() -> list[str]:
    """A translatable message (filter, tag, with a translator comment before it) after 0..40 lines, under every line
    convention, with short and long lines before it."""
    out = []
    tails = [["{{ 'MSGTXT' | t }}"], ["{# Translators: NOTE #}", "{{ 'MSGTXT' | t }}"], ["{% translate %}MSGTXT{% endtranslate %}"], ["{{ 'MSGTXT' | t }}", "", "{% # Translators: NOTE %}", "{{ 'MSG2' | gettext }}"]]
    for nl in NEWLINES:
        for h in range(0, 41):
            for line in ("x", "text {{ v }} and some more text on this line"):
                for tail in tails:
                    out.append(nl.join([line] * h + tail))
    return out


# ------------------------------------------------------------------ markup locality: tokens(A + B) = tokens(A) ++ tokens(B)

EXPR_ATOMS = ["a", ".", "[", "]", "|", ":", ",", "=", "(", ")", "..", "1", "-1", "1.5", "<", "==", "'", '"', "${", "}", "=>", "-", "'${", "1..2", "(1..2)", "a..", "..b"]
PROBES = [
    "{{ (x) }}", "{{ x | f: (a, b) => a }}", "{{ (1..2) }}", "{{ a.b[c] }}", "{{ 'a${b}c' }}", "{% if a %}", "text", "{{ x }}", "{# c #}",
    "{% raw %}r{% endraw %}", "{% liquid echo (a..b) %}", "{{ 1.5 }}", "{% for i in (1..x) %}", "{{ a[b[c]] }}",
]


def concat_heads() -> list[str]:
    """Complete markups made of every one or two expression atoms, as an output, a tag, a template string and a line
    of a liquid tag - whether they make sense or not, as long as the lexer accepts them on their own."""
    out: list[str] = []
    bodies = [x for x in EXPR_ATOMS] + [x + " " + y for x in EXPR_ATOMS for y in EXPR_ATOMS]
    for b in bodies:
        out += ["{{ " + b + " }}", "{% if " + b + " %}"]
    for b in EXPR_ATOMS:
        out += ['{{ "${' + b + '}" }}', "{% liquid echo " + b + "\n%}", "{% assign v = " + b + " %}"]
    return out


def concat_problems(env: Any, head: str, res: ShardResult | None) -> list[str]:
    """What the lexer makes of a markup does not depend on the markup before it."""
    problems: list[str] = []
    try:
        th = env.tokenize(head)
    except Exception:  # noqa: BLE001
        return problems
    if not th or type(th[-1]).__name__ == "ContentToken":
        return problems
    for probe in PROBES:
        try:
            tp = env.tokenize(probe)
        except Exception:  # noqa: BLE001
            continue
        if res is not None:
            res.evaluations += 1
        try:
            both = env.tokenize(head + probe)
        except LiquidError as e:
            problems.append(f"locality: {probe!r} is accepted on its own and rejected after other markup ({str(e.message)[:40]})")
            continue
        except Exception:  # noqa: BLE001
            continue
        want = [canon(t, 0) for t in th] + [canon(t, 0) for t in tp]
        got = [canon(t, 0) for t in both[: len(th)]] + [canon(t, len(head)) for t in both[len(th) :]]
        if want != got:
            problems.append(f"locality: {probe!r} is tokenized differently after other markup")
    if res is not None and problems:
        res.nontrivial.add(h64(head))
    return problems


KEPT_FIRST = [
    "{% if a %}", "{{ a | }}", "{% assign x = %}", "{{ a", "{% for x in %}", "{{ a['b'", "{% macro %}", "{% case a %}{% when %}",
    "{% comment %}", "text {% unless a %} more", "{{ 'abc }}", "{% liquid\nif a %}", "{{ a | upcase: }}", "{% capture %}", "{{ 1 +", "x\n\n{% if %}y",
]
KEPT_SECOND = [
    "", "plain text that is rather longer than the first source was, by some margin", "{{ b }}", "{% if b %}x{% endif %}", "{% if b %}",
    "{{ b | }}", "line one\nline two\n{{ b.c | upcase }}\nline four {% assign z = 1 %}", "{% for i in (1..3) %}{{ i }}{% endfor %}{{ 'tail' }}",
]


def _err_snapshot(e: LiquidError) -> Any:
    tok = e.token
    if tok is None:
        return None
    try:
        ctx = e.context()
    except Exception as x:  # noqa: BLE001
        ctx = f"{type(x).__name__}"
    return (tok.start, tok.stop, tok.source, ctx, str(e))


def kept_problems(env: Any, first: str, second: str, res: ShardResult | None) -> list[str]:
    """History of two parses: the error raised for `first` is kept (as a linter collecting diagnostics keeps it) while
    `second` is tokenized and parsed; what the kept error reports must not move, and must lie inside `first`."""
    problems: list[str] = []
    kept: list[tuple[str, LiquidError, Any]] = []
    for what, fn in (("tokenize", env.tokenize), ("parse", env.from_string)):
        try:
            fn(first)
        except LiquidError as e:
            kept.append((what, e, _err_snapshot(e)))
        except Exception:  # noqa: BLE001
            pass
    for fn in (env.tokenize, env.from_string):
        try:
            fn(second)
        except Exception:  # noqa: BLE001
            pass
    for what, e, snap in kept:
        if res is not None:
            res.evaluations += 1
        now = _err_snapshot(e)
        if now != snap:
            problems.append(f"kept-error: the position or text of a {what} error changed after another source was parsed")
            continue
        _error_problems(e, {first}, problems, f"kept-{what}-error")
    return problems


def _outcome_class(env: Any, src: str) -> int:
    """What the lexer made of this source: token type sequence or error message (for distinct_outcomes)."""
    import re

    try:
        return h64([type(t).__name__ for t in env.tokenize(src)])
    except Exception as e:  # noqa: BLE001
        return h64(type(e).__name__ + re.sub(r"\d+", "N", str(e.args[:1])))


def sig_of(problem: str) -> str:
    # strip numbers so that one kind of failure has one signature
    import re

    return "C17:" + re.sub(r"-?\d+", "N", problem)[:160]


def run_sources(sources, res: ShardResult) -> None:
    for src in sources:
        res.cases += 1
        for env_name, env in get_envs():
            res.evaluations += 1
            try:
                with cpu_budget(5.0):
                    problems = check_source(env_name, env, src, res)
            except TimeBudget:
                res.violation("C17:timeout", {"env": env_name, "source": src}, "finishes", "timeout 5s")
                continue
            res.outcomes.add(h64(problems) ^ _outcome_class(env, src))
            for p in problems:
                res.violation(
                    sig_of(p),
                    {"env": env_name, "source": src},
                    "tokens tile the source; positions inside the source",
                    p,
                    repro=_repro(env_name, src, p),
                )
        if len(res.samples) < 3 and len(src) > 6:
            res.samples.append(src)


def _repro(env_name: str, src: str, problem: str) -> str:
    return (
        "# stand-alone reproduction (C17): " + problem.replace("\n", " ") + "\n"
        "from liquid2 import Environment\n"
        f"class E(Environment):\n    shorthand_indexes = {env_name == 'shorthand'}\n"
        f"src = {src!r}\n"
        "toks = E().tokenize(src)\n"
        "print([(type(t).__name__, t.start, t.stop) for t in toks])\n"
        "assert toks[0].start == 0 and toks[-1].stop == len(src)\n"
        "assert all(a.stop == b.start for a, b in zip(toks, toks[1:])), 'tokens do not tile the source'\n"
    )


# ------------------------------------------------------------------ spaces


def sigma_source(k: int, idx: int, joiner: str) -> str:
    m = len(SIGMA)
    parts = []
    for _ in range(k):
        idx, r = divmod(idx, m)
        parts.append(SIGMA[r])
    return joiner.join(parts)


NEWLINES = ["\n", "\r\n", "\r", "\u2028", "\x0c", "\x85"]
HEAD_LINES = ["{% assign v = 1 %}", "text {{ v }}", "{# note #}", "{% if v %}", "{% endif %}"]
LATE_TAILS = [
    "{{ v | nosuchfilter }}", "{{ v | divided_by: 0 }}", "{{ v w }}", "{{ v !}}", "{{ v | }}", "{% nosuchtag %}", "{% if %}",
    "{{ 'unclosed }}", "{{ v[ }}", "{% for x in %}", "{% include 'missing' %}", "{{ v | upcase: 1, 2 }}", "{{ v }", "{% endfor %}",
]


def path_sources() -> list[str]:
    """Every variable path with up to three levels of bracketed nesting and up to two segments per level (the innermost
    level in full, the outer ones with one nested path and at most one ordinary segment on either side of it)."""
    simple = [".x", "[0]", "['s']"]
    lvl1 = ["d" + "".join(c) for n_ in range(3) for c in itertools.product(simple, repeat=n_)]
    lvl2 = []
    for inner in lvl1:
        for pre in ("", *simple):
            for post in ("", *simple):
                lvl2.append("c" + pre + "[" + inner + "]" + post)
    lvl3 = []
    for inner in lvl2[::3] + lvl2[1::7]:
        for pre in ("", ".x", "[0]"):
            for post in ("", ".y"):
                lvl3.append("b" + pre + "[" + inner + "]" + post)
    out = ["{{ " + p_ + " }}" for p_ in lvl1 + lvl2 + lvl3]
    out += ["{% if a[" + p_ + "] == " + p_ + " %}{% endif %}{{ x | append: " + p_ + " }}" for p_ in lvl2[::5] + lvl3[::11]]
    return out


def path_word_sources() -> list[str]:
    """Every path written as a word over segment spellings, including a bracketed ROOT, shorthand indexes (`.1`), and
    white space on either side of a dot or inside brackets: roots x all segment words of length <= 3, at two sites."""
    roots = ["a", "['k k']", "[k]", "a-b"]
    segs = [".b", "[0]", "['s']", "[k]", ".1", ".0", ". b", " .b", "[ 0 ]", ".\nb"]
    paths = [r + "".join(w) for r in roots for n_ in range(4) for w in itertools.product(segs, repeat=n_)]
    return ["{{ " + p_ + " }}" for p_ in paths] + ["{{ x | append: " + p_ + " }}" for p_ in paths if len(p_) < 14]


def line_sources() -> list[str]:
    """Multi-line sources under every line convention str.splitlines knows, with the error on the LAST line."""
    out = []
    for nl in NEWLINES:
        for h in range(len(HEAD_LINES) + 1):
            for tail in LATE_TAILS:
                out.append(nl.join([*HEAD_LINES[:h], tail]))
                out.append(nl.join([*HEAD_LINES[:h], tail]) + nl)
    return out


def corpus(tier: str) -> list[str]:
    from mc import grammar

    base = list(RICH)
    base += line_sources()
    base += message_line_sources()
    base += path_sources()
    base += impl.corpus_templates()
    base += grammar.printed_corpus(tier)
    seen: dict[str, None] = {}
    for s in base:
        seen.setdefault(s, None)
    return list(seen)


def mutants(src: str, inserts: list[str]) -> list[str]:
    out = [src]
    n = len(src)
    for i in range(n):
        out.append(src[:i])  # every prefix
        out.append(src[:i] + src[i + 1 :])  # delete one char
    for i in range(n + 1):
        for s in inserts:
            out.append(src[:i] + s + src[i:])
    return out


QUICK_INSERTS = ["{{", "{%", "{#", "'", '"', "\n", "}}", "%}", ".", "[", "-", "#"]


def _plan_impl(tier: str, seed: int):
    k = 3 if tier == "quick" else 4
    shards: list[Any] = []
    m = len(SIGMA)
    total = 0
    for kk in range(0, k + 1):
        size = m**kk
        for j in ("", " "):
            if kk <= 1 and j == " ":
                continue
            for lo, hi in chunks(size, 64 if kk >= 3 else 1):
                shards.append(("sigma", kk, j, lo, hi))
            total += size
    corp = corpus_cached(tier)
    if tier == "quick":
        corp_m = sorted(corp, key=lambda s: (len(s), s))
        corp_m = [s for s in corp_m if len(s) <= 90][:700]
        inserts = QUICK_INSERTS
    else:
        # (every source of the corpus is checked as it is; the mutants are those of the sources of <= 60 characters -
        # the 40-line sources have 50 mutants per character)
        corp_m = [s for s in corp if len(s) <= 60]
        inserts = SIGMA
    # plain corpus
    for lo, hi in chunks(len(corp), 16):
        shards.append(("corpus", lo, hi))
    total += len(corp)
    for lo, hi in chunks(len(corp_m), 128):
        shards.append(("mutants", tier, lo, hi))
    nm = sum(1 + 2 * len(s) + (len(s) + 1) * len(inserts) for s in corp_m)
    total += nm
    heads = concat_heads()
    for lo, hi in chunks(len(heads), 16):
        shards.append(("concat", lo, hi))
    total += len(heads)
    shards.append(("kept",))
    pw = path_word_sources()
    for lo, hi in chunks(len(pw), 256):
        shards.append(("pathwords", lo, hi))
    total += len(pw)
    total += len(KEPT_FIRST) * len(KEPT_SECOND)
    meta = {
        "space_size": total,
        "bounds": {"sigma_len": k, "sigma_size": m, "corpus": len(corp), "mutated_corpus": len(corp_m),
                   "inserted_tokens": len(inserts), "environments": ["default", "shorthand_indexes"]},
        "subspaces": {"sigma": sum((m**kk) * (1 if kk <= 1 else 2) for kk in range(k + 1)),
                      "corpus": len(corp), "mutants": nm},
    }
    return shards, meta


def run_shard(shard) -> ShardResult:
    res = ShardResult()
    kind = shard[0]
    if kind == "sigma":
        _, kk, j, lo, hi = shard
        run_sources((sigma_source(kk, i, j) for i in range(lo, hi)), res)
    elif kind == "corpus":
        _, lo, hi = shard
        run_sources(corpus_cached(_TIER[0])[lo:hi], res)
    elif kind == "pathwords":
        _, lo, hi = shard
        run_sources(path_word_sources()[lo:hi], res)
    elif kind == "kept":
        for first in KEPT_FIRST:
            for second in KEPT_SECOND:
                res.cases += 1
                for env_name, env in get_envs():
                    probs = kept_problems(env, first, second, res)
                    res.outcomes.add(h64([first, probs]))
                    res.nontrivial.add(h64([first, second]))
                    for p_ in probs:
                        res.violation(sig_of(p_), {"env": env_name, "source": first, "then": second, "kept": True}, "a kept error keeps reporting a position inside its own source", p_)
    elif kind == "concat":
        _, lo, hi = shard
        for head in concat_heads()[lo:hi]:
            res.cases += 1
            for env_name, env in get_envs():
                for p_ in concat_problems(env, head, res):
                    res.violation(sig_of(p_), {"env": env_name, "source": head, "concat": True}, "a markup is tokenized the same whatever precedes it", p_)
    else:
        _, tier, lo, hi = shard
        corp = corpus_cached(tier)
        if tier == "quick":
            corp_m = sorted(corp, key=lambda s: (len(s), s))
            corp_m = [s for s in corp_m if len(s) <= 90][:700]
            inserts = QUICK_INSERTS
        else:
            corp_m = [s for s in corp if len(s) <= 60]
            inserts = SIGMA
        for src in corp_m[lo:hi]:
            run_sources(mutants(src, inserts), res)
    return res


_TIER = ["quick"]
_CORPUS: dict[str, list[str]] = {}


def corpus_cached(tier: str) -> list[str]:
    if tier not in _CORPUS:
        _CORPUS[tier] = corpus(tier)
    return _CORPUS[tier]


def plan(tier: str, seed: int):
    _TIER[0] = tier
    corpus_cached(tier)  # built before the fork so workers share it
    return _plan_impl(tier, seed)


def replay(case: dict[str, Any]) -> list[dict[str, Any]]:
    res = ShardResult()
    for env_name, env in get_envs():
        if env_name != case["env"]:
            continue
        if case.get("kept"):
            for p in kept_problems(env, case["source"], case["then"], None):
                res.violation(sig_of(p), case, "a kept error keeps reporting a position inside its own source", p)
            continue
        if case.get("concat"):
            for p in concat_problems(env, case["source"], None):
                res.violation(sig_of(p), case, "a markup is tokenized the same whatever precedes it", p)
            continue
        for p in check_source(env_name, env, case["source"], None):
            res.violation(sig_of(p), case, "tokens tile the source; positions inside the source", p)
    return res.violations
