"""C06 — configured resource limits are hard bounds.

Programs: loop nests of depth <= 3 (quick) / 4 (thorough) whose levels are drawn from {for, for over a hash,
tablerow, include..for, render..for, render inside for, include inside for, macro call inside for, loop inside
capture, loop inside a blank block}, each level with its own length in {0..3}; the innermost body writes one
multi-byte marker; text contains \\r and \\r\\n. Cyclic graphs: every functional/2-out-edge graph on <= 3 (4)
templates with edge kinds {include, render, extends, include-in-for, render-in-capture, macro self-call}.
Namespace programs: sequences of assign/capture of graded sizes in the root template and in partials/macros.
For each program the consumption is measured from the unlimited render (output bytes N, total bytes written T to
any buffer, marker count M per nest, product-of-lengths bound B, peak local-namespace score), then EVERY limit
value L in 1..T+1 (output), 1..B+1 (loops), {peak-1, peak, peak+1} (namespace), 0..40 (context depth) is tried.
Oracle: safety (success => output <= L bytes, M <= L, score <= L); completeness (N > L => OutputStreamLimitError);
transparency (L >= T, resp. L >= B, L >= peak => byte-identical output); only the matching ...LimitError may
appear; cyclic graphs => ContextDepthError or TemplateInheritanceError within the CPU budget under Python's default
recursion limit, never RecursionError or a hang.
"""

from __future__ import annotations

import io
import itertools
import sys
from typing import Any

from liquid2 import RenderContext
from liquid2.exceptions import ContextDepthError
from liquid2.exceptions import LiquidError
from liquid2.exceptions import LocalNamespaceLimitError
from liquid2.exceptions import LoopIterationLimitError
from liquid2.exceptions import OutputStreamLimitError
from liquid2.exceptions import TemplateInheritanceError

from mc import impl
from mc.harness import ShardResult
from mc.harness import TimeBudget
from mc.harness import chunks
from mc.harness import cpu_budget
from mc.harness import h64
from mc.vloop import run_solo

ID = "C06"
LEVEL = "exploration"
ENGINES = ["E1 spaces", "limit sweep around measured consumption"]
RULE = (
    "loop nests (level kinds^depth x lengths^depth) x every output limit in 1..T+1 and every loop limit in 1..B+1; "
    "cyclic template graphs; namespace programs x {peak-1,peak,peak+1}; depth limits 0..40. A case is non-trivial when "
    "the sweep crossed the program's consumption (both a failing and a succeeding limit value were observed); distinct "
    "by (program, limit kind)"
)
LEVEL_TEXT = (
    "Bounded-exhaustive exploration of programs x every limit value in a range that brackets the program's measured "
    "consumption, on the real implementation; safety, completeness and transparency are checked at every limit value "
    "including the limit-1 / limit / limit+1 boundary."
)
LEVEL_NOTE = (
    "Consumption is measured by the harness from the unlimited run (bytes written to any buffer, marker counts, "
    "sys.getsizeof score in the same process); between the final output size N and the total written bytes T the output "
    "limit may or may not trigger (captures count while they are written) and both are accepted."
)
TECHNIQUE = "bounded-exhaustive enumeration of loop nests / cyclic graphs / namespace programs with an exhaustive sweep of every limit value around the measured consumption"
ASSUMPTIONS = ["sys.getsizeof is stable within one process", "Python's default recursion limit (1000) is in force while cyclic graphs are rendered"]

MARK = "é"  # 2 bytes
KINDS = ("F", "H", "T", "IF", "RF", "FR", "FI", "FM", "FC", "FB", "FS", "FP")
SEQ_KINDS = KINDS[:10]


# ------------------------------------------------------------------ nest construction


def build_nest(kinds: tuple[str, ...], lengths: tuple[int, ...]) -> tuple[str, dict[str, str], dict[str, Any], bool]:
    """Returns (main source, partial templates, data, uses_disabled_include)."""
    templates: dict[str, str] = {}
    data: dict[str, Any] = {}
    depth = len(kinds)
    inner = MARK
    under_isolated = [False] * (depth + 1)
    # build inside-out; partial names by level
    body = inner
    bad = False
    for lvl in range(depth - 1, -1, -1):
        k, n = kinds[lvl], lengths[lvl]
        arr = f"arr{lvl}"
        v = f"v{lvl}"
        if k == "H":
            data[arr] = {f"k{j}": j for j in range(n)}
        else:
            data[arr] = list(range(n))
        if k in ("F", "H"):
            body = "{% for " + v + " in " + arr + " %}" + body + "{% endfor %}"
        elif k == "T":
            body = "{% tablerow " + v + " in " + arr + " %}" + body + "{% endtablerow %}"
        elif k == "IF":
            templates[f"p{lvl}"] = body
            body = "{% include 'p" + str(lvl) + "' for " + arr + " as " + v + " %}"
        elif k == "RF":
            templates[f"p{lvl}"] = body
            body = "{% render 'p" + str(lvl) + "' for " + arr + " as " + v + " %}"
        elif k == "FR":
            templates[f"p{lvl}"] = body
            body = "{% for " + v + " in " + arr + " %}{% render 'p" + str(lvl) + "' %}{% endfor %}"
        elif k == "FI":
            templates[f"p{lvl}"] = body
            body = "{% for " + v + " in " + arr + " %}{% include 'p" + str(lvl) + "' %}{% endfor %}"
        elif k == "FM":
            body = "{% macro m" + str(lvl) + " %}" + body + "{% endmacro %}{% for " + v + " in " + arr + " %}{% call m" + str(lvl) + " %}{% endfor %}"
        elif k == "FC":
            body = "{% capture c" + str(lvl) + " %}{% for " + v + " in " + arr + " %}" + body + "{% endfor %}{% endcapture %}{{ c" + str(lvl) + " }}"
        elif k == "FS":
            # a loop around {{ block.super }}: the parent's block body runs once per iteration, in a rendered partial
            templates[f"q{lvl}"] = "{% block b %}" + body + "{% endblock %}"
            templates[f"c{lvl}"] = "{% extends 'q" + str(lvl) + "' %}{% block b %}{% for " + v + " in " + arr + " %}{{ block.super }}{% endfor %}{% endblock %}"
            body = "{% render 'c" + str(lvl) + "' %}"
        elif k == "FP":
            # the loop is in the parent, around a block; the overriding block passes through block.super
            templates[f"q{lvl}"] = "{% for " + v + " in " + arr + " %}{% block b %}" + body + "{% endblock %}{% endfor %}"
            templates[f"c{lvl}"] = "{% extends 'q" + str(lvl) + "' %}{% block b %}{{ block.super }}{% endblock %}"
            body = "{% render 'c" + str(lvl) + "' %}"
        elif k == "FB":
            # a loop whose own text is blank, inside a conditional block (blank-block suppression path)
            body = "{% if true %}{% for " + v + " in " + arr + " %} " + body + "{% endfor %}{% endif %}"
    # include is disabled under render / macro: such nests are not generated
    iso = False
    for k in kinds:
        if iso and k in ("IF", "FI"):
            bad = True
        if k in ("RF", "FR", "FM", "FS", "FP"):
            iso = True
    main = "a\r\nb\r" + body + "c\n"
    return main, templates, data, bad


def nest_space(tier: str) -> list[tuple[tuple[str, ...], tuple[int, ...]]]:
    maxd = 3 if tier == "quick" else 4
    lens_by_depth = {1: (0, 1, 2, 3), 2: (0, 1, 2, 3) if tier != "quick" else (0, 2, 3), 3: (1, 2, 3) if tier != "quick" else (2, 3), 4: (2, 3)}
    kinds_by_depth = {1: KINDS, 2: KINDS, 3: KINDS if tier != "quick" else ("F", "T", "IF", "RF", "FR", "FM", "FC"), 4: ("F", "IF", "RF", "T")}
    out = []
    for d in range(1, maxd + 1):
        for kinds in itertools.product(kinds_by_depth[d], repeat=d):
            for lens in itertools.product(lens_by_depth[d], repeat=d):
                out.append((kinds, lens))
    return out


# ------------------------------------------------------------------ measuring consumption


class CountingIO(io.StringIO):
    total = 0

    def write(self, s: str) -> int:  # type: ignore[override]
        CountingIO.total += len(s.encode("utf-8"))
        return super().write(s)


def measure(main: str, templates: dict[str, str], data: dict[str, Any]) -> tuple[str, Any, int]:
    """Unlimited render with every buffer counting bytes. Returns (kind, output|error, total_bytes_written)."""
    import liquid2.context as ctx_mod
    import liquid2.template as tmpl_mod

    env = impl.make_env(templates=templates, shopify=True)
    old_c, old_t = ctx_mod.StringIO, tmpl_mod.StringIO
    ctx_mod.StringIO = CountingIO  # type: ignore[misc]
    tmpl_mod.StringIO = CountingIO  # type: ignore[misc]
    CountingIO.total = 0
    try:
        out = env.from_string(main).render(**data)
        return ("ok", out, CountingIO.total)
    except LiquidError as e:
        return ("liquid", type(e).__name__, CountingIO.total)
    finally:
        ctx_mod.StringIO, tmpl_mod.StringIO = old_c, old_t  # type: ignore[misc]


def _limited(templates: dict[str, str], limits: dict[str, Any], main: str, data: dict[str, Any], mode: str = "sync") -> tuple[str, Any]:
    env = impl.make_env(templates=templates, shopify=True, limits=limits)
    try:
        with cpu_budget(10.0):
            if mode == "async":
                kind, val = run_solo(env.from_string(main).render_async(**data))
                if kind != "ok":
                    raise val
                return ("ok", val)
            return ("ok", env.from_string(main).render(**data))
    except TimeBudget:
        return ("timeout", None)
    except LiquidError as e:
        return ("liquid", type(e).__name__)
    except RecursionError:
        return ("foreign", "RecursionError")
    except Exception as e:  # noqa: BLE001
        return ("foreign", type(e).__name__ + ":" + str(e)[:60])


# ---- observed nesting: how many render contexts are actually wrapped around each other (the `parent` chain) and how
# many namespaces one context's scope holds. Measured by wrapping the two methods in this process (no hook in /repo).
_DEPTH = {"chain": 0, "scope": 0}


def _install_depth_probe() -> None:
    if getattr(RenderContext, "_verif_probe", False):
        return
    orig_copy = RenderContext.copy
    orig_extend = RenderContext.extend

    def copy(self: Any, *a: Any, **k: Any) -> Any:
        ctx = orig_copy(self, *a, **k)
        n, c = 0, ctx
        while c.parent is not None:
            n += 1
            c = c.parent
        _DEPTH["chain"] = max(_DEPTH["chain"], n)
        return ctx

    def extend(self: Any, *a: Any, **k: Any) -> Any:
        cm = orig_extend(self, *a, **k)
        _DEPTH["scope"] = max(_DEPTH["scope"], self.scope.size() + 1)
        return cm

    RenderContext.copy = copy  # type: ignore[method-assign]
    RenderContext.extend = extend  # type: ignore[method-assign]
    RenderContext._verif_probe = True  # type: ignore[attr-defined]


def product_bound(lengths: tuple[int, ...]) -> int:
    b = 1
    for n in lengths:
        b *= n
    return b


def check_nest(kinds: tuple[str, ...], lengths: tuple[int, ...], res: ShardResult | None, only: tuple | None = None) -> list[tuple[str, Any, Any, Any]]:
    out: list[tuple[str, Any, Any, Any]] = []
    main, templates, data, bad = build_nest(kinds, lengths)
    if bad:
        return out
    m = measure(main, templates, data)
    if m[0] != "ok":
        out.append(("C06:unlimited-render-fails:" + str(m[1]), {"kinds": list(kinds), "lengths": list(lengths), "limit": None}, "renders", list(m)))
        return out
    out0, T = m[1], m[2]
    N = len(out0.encode("utf-8"))
    M = out0.count(MARK)
    # the sequence of running products is what bounds each nest prefix; the whole nest's bound is the full product,
    # and every prefix nest (outer loops alone) is bounded by its own product
    B = max([product_bound(lengths[: i + 1]) for i in range(len(lengths))] + [1])
    case_base = {"kinds": list(kinds), "lengths": list(lengths)}
    saw_fail = saw_ok = False
    # ---- output limit sweep
    for L in range(0, T + 2):  # (0 is a limit too: nothing may be written)
        if only is not None and only != ("output", L):
            continue
        got = _limited(templates, {"output_stream_limit": L}, main, data)
        if res is not None:
            res.evaluations += 1
        extra = {**case_base, "limit_kind": "output", "limit": L, "N": N, "T": T}
        if got[0] == "ok":
            saw_ok = True
            if len(got[1].encode("utf-8")) > L:
                out.append(("C06:output-exceeds-limit", extra, f"<= {L} bytes", {"bytes": len(got[1].encode('utf-8'))}))
            elif got[1] != out0:
                out.append(("C06:output-limit-changes-output", extra, out0, got[1]))
            if N > L:
                out.append(("C06:output-over-limit-not-rejected", extra, "OutputStreamLimitError", {"bytes": N}))
        elif got == ("liquid", "OutputStreamLimitError"):
            saw_fail = True
            if L >= T:
                out.append(("C06:output-limit-not-exceeded-but-error", extra, out0, list(got)))
        else:
            out.append((f"C06:output-limit-wrong-outcome:{got[0]}:{got[1]}", extra, "output or OutputStreamLimitError", list(got)))
    if res is not None and saw_fail and saw_ok:
        res.nontrivial.add(h64([kinds, lengths, "output"]))
    # ---- loop limit sweep
    saw_fail = saw_ok = False
    for L in range(1, B + 2):
        if only is not None and only != ("loop", L):
            continue
        got = _limited(templates, {"loop_iteration_limit": L}, main, data)
        if res is not None:
            res.evaluations += 1
        extra = {**case_base, "limit_kind": "loop", "limit": L, "iterations": M, "product_bound": B}
        if got[0] == "ok":
            saw_ok = True
            if M > L:
                out.append((f"C06:loop-nest-exceeds-limit:{_boundary(kinds)}", extra, f"<= {L} iterations or LoopIterationLimitError", {"iterations": M}))
            elif got[1] != out0:
                out.append(("C06:loop-limit-changes-output", extra, out0, got[1]))
        elif got == ("liquid", "LoopIterationLimitError"):
            saw_fail = True
            if L >= B:
                out.append(("C06:loop-limit-not-exceeded-but-error", extra, out0, list(got)))
        else:
            out.append((f"C06:loop-limit-wrong-outcome:{got[0]}:{got[1]}", extra, "output or LoopIterationLimitError", list(got)))
    if res is not None and saw_fail and saw_ok:
        res.nontrivial.add(h64([kinds, lengths, "loop"]))
    # ---- the asynchronous twins of the loop constructs, at the boundary values of both limits
    for kind_, L in [("loop", x) for x in (B - 1, B, B + 1) if x >= 1] + [("output", x) for x in (N - 1, N, T, T + 1) if x >= 0]:
        if only is not None and only != (kind_ + "-async", L):
            continue
        key = "loop_iteration_limit" if kind_ == "loop" else "output_stream_limit"
        s_, a_ = _limited(templates, {key: L}, main, data), _limited(templates, {key: L}, main, data, "async")
        if res is not None:
            res.evaluations += 2
        if s_ != a_:
            out.append((f"C06:{kind_}-limit-async-differs:{_boundary(kinds)}", {**case_base, "limit_kind": kind_ + "-async", "limit": L}, list(s_), list(a_)))
    if res is not None:
        res.outcomes.add(h64([N > 0, M, B]))
    return out


# ------------------------------------------------------------------ sequels: a nest rendered AFTER an earlier construct
# in the same render context. The earlier construct is left in an unusual way (break / continue escaping a partial, an
# interrupt inside tablerow / capture / macro); whatever bookkeeping it did must be undone before the next nest starts.

PREFIXES: list[tuple[str, dict[str, str], int]] = [
    # (source, partial templates, product-of-lengths bound of the prefix's own nest); `its` has 3 items
    ("{% for i in (1..2) %}{% include 'xb' for its %}|{% endfor %}", {"xb": "{{ xb }}{% if xb == 2 %}{% break %}{% endif %},"}, 6),
    ("{% for i in (1..2) %}{% include 'xc' for its %}|{% endfor %}", {"xc": "{{ xc }}{% if xc == 2 %}{% continue %}{% endif %},"}, 6),
    ("{% for i in (1..2) %}{% include 'xi' %}|{% endfor %}", {"xi": "{% for y in its %}{{ y }}{% endfor %}{% break %}"}, 6),
    ("{% for i in (1..2) %}{% for y in its %}{% include 'xj' %}{% endfor %}|{% endfor %}", {"xj": "{{ y }}{% break %}"}, 6),
    ("{% for i in (1..2) %}{% tablerow y in its %}{{ y }}{% break %}{% endtablerow %}|{% endfor %}", {}, 6),
    ("{% for i in (1..2) %}{% capture c %}{% for y in its %}{{ y }}{% break %}{% endfor %}{% endcapture %}{{ c }}{% continue %}|{% endfor %}", {}, 6),
    ("{% for i in (1..2) %}{% render 'xr' for its as y %}{% break %}{% endfor %}", {"xr": "{% for z in (1..2) %}{{ y }}{% break %}{% endfor %}"}, 12),
    ("{% macro mx %}{% for y in its %}{{ y }}{% continue %}{% endfor %}{% endmacro %}{% for i in (1..2) %}{% call mx %}{% break %}{% endfor %}", {}, 6),
    ("{% for i in (1..2) %}{% include 'xb' for its %}{% else %}e{% endfor %}{% for i in (1..2) %}{% include 'xc' for its %}{% endfor %}", {"xb": "{{ xb }}{% break %}", "xc": "{{ xc }}{% continue %}"}, 6),
]


def sequel_space(tier: str) -> list[tuple[int, tuple[str, ...], tuple[int, ...]]]:
    out = []
    lens2 = ((2, 3), (3, 2), (3, 3)) if tier == "quick" else ((2, 3), (3, 2), (3, 3), (2, 2), (1, 3), (3, 4))
    for p in range(len(PREFIXES)):
        for k in SEQ_KINDS:
            out.append((p, (k,), (3,)))
        for kinds in itertools.product(SEQ_KINDS, repeat=2):
            for lens in lens2:
                out.append((p, kinds, lens))
    return out


def check_sequel(p: int, kinds: tuple[str, ...], lengths: tuple[int, ...], res: ShardResult | None, only: int | None = None) -> list[tuple[str, Any, Any, Any]]:
    out: list[tuple[str, Any, Any, Any]] = []
    main, templates, data, bad = build_nest(kinds, lengths)
    if bad:
        return out
    psrc, ptemplates, pbound = PREFIXES[p]
    main = psrc + "/" + main
    templates = {**templates, **ptemplates}
    data = {**data, "its": [1, 2, 3]}
    m = measure(main, templates, data)
    case_base = {"prefix": p, "kinds": list(kinds), "lengths": list(lengths)}
    if m[0] != "ok":
        out.append(("C06:unlimited-render-fails:" + str(m[1]), {**case_base, "limit": None}, "renders", list(m)))
        return out
    out0 = m[1]
    B = max([product_bound(lengths[: i + 1]) for i in range(len(lengths))] + [pbound, 1])
    saw_fail = saw_ok = False
    for L in range(1, B + 3):
        if only is not None and only != L:
            continue
        for mode in ("sync", "async"):
            got = _limited(templates, {"loop_iteration_limit": L}, main, data, mode)
            if res is not None:
                res.evaluations += 1
            extra = {**case_base, "limit_kind": "loop", "limit": L, "product_bound": B, "mode": mode}
            tag = "" if mode == "sync" else ":async"
            if got[0] == "ok":
                saw_ok = True
                if got[1] != out0:
                    out.append((f"C06:loop-limit-changes-output{tag}", extra, out0, got[1]))
            elif got == ("liquid", "LoopIterationLimitError"):
                saw_fail = True
                if L >= B:
                    out.append((f"C06:loop-limit-not-exceeded-but-error{tag}:after-prefix-{p}", extra, out0, list(got)))
            else:
                out.append((f"C06:loop-limit-wrong-outcome{tag}:{got[0]}:{got[1]}", extra, "output or LoopIterationLimitError", list(got)))
    if res is not None:
        if saw_fail and saw_ok:
            res.nontrivial.add(h64([p, kinds, lengths, "sequel"]))
        res.outcomes.add(h64([p, len(out0)]))
    return out


def _boundary(kinds: tuple[str, ...]) -> str:
    """Which loop-like constructs other than plain `for` take part in the nest (the suspects)."""
    return "+".join(sorted({k for k in kinds if k not in ("F", "H", "FC", "FB")})) or "for-only"


# ------------------------------------------------------------------ cyclic graphs

EDGE_KINDS = ("include", "render", "extends", "include-in-for", "render-in-capture", "macro-self", "include-in-block", "render-in-block")
# edge kinds that make the template a child of another template (their markup must come first)
EXT_KINDS = ("extends", "include-in-block", "render-in-block")
GBASE = "<{% block b %}B{% endblock %}>"  # a fixed, acyclic base for the *-in-block edges


def edge_src(kind: str, target: int, me: int) -> str:
    t = f"'g{target}'"
    if kind == "include":
        return "{% include " + t + " %}"
    if kind == "render":
        return "{% render " + t + " %}"
    if kind == "extends":
        return "{% extends " + t + " %}{% block b %}" + str(me) + "{{ block.super }}{% endblock %}"
    if kind == "include-in-block":
        # the cycle runs through an overriding block rendered in the base template's (block-scoped) context
        return "{% extends 'gbase' %}{% block b %}" + str(me) + "{% include " + t + " %}{% endblock %}"
    if kind == "render-in-block":
        return "{% extends 'gbase' %}{% block b %}" + str(me) + "{% render " + t + " %}{% endblock %}"
    if kind == "include-in-for":
        return "{% for i in (1..2) %}{% include " + t + " %}{% endfor %}"
    if kind == "render-in-capture":
        return "{% capture c %}{% render " + t + " %}{% endcapture %}{{ c }}"
    # a macro that calls itself, defined and called in this template, plus an edge onwards
    return "{% macro mm %}x{% call mm %}{% endmacro %}{% call mm %}{% include " + t + " %}"


def graph_space(tier: str) -> list[tuple[tuple[tuple[str, int], ...], ...]]:
    """Every graph on n templates where each template has 1..2 out-edges (kind, target), and g0 reaches a cycle
    (always true: every node has an out-edge)."""
    out = []
    nmax = 3 if tier == "quick" else 4
    kinds = EDGE_KINDS if tier != "quick" else EDGE_KINDS
    for n in range(1, nmax + 1):
        single = [((k, t),) for k in kinds for t in range(n)]
        if n <= 2:
            double = [((k1, t1), (k2, t2)) for (k1, t1), (k2, t2) in itertools.combinations([(k, t) for k in kinds for t in range(n)], 2)]
        else:
            double = []
        per_node = single + (double if n <= 2 else [])
        if n == 3 and tier == "quick":
            per_node = [((k, t),) for k in kinds if k not in ("macro-self", "render-in-block") for t in range(n)]
        if n == 4:
            per_node = [((k, t),) for k in ("include", "render", "extends", "render-in-capture", "include-in-block") for t in range(n)]
        for combo in itertools.product(per_node, repeat=n):
            out.append(combo)
    return out


def check_graph(graph: tuple, res: ShardResult | None) -> list[tuple[str, Any, Any, Any]]:
    out: list[tuple[str, Any, Any, Any]] = []
    n = len(graph)
    templates = {"gbase": GBASE}
    for me, edges in enumerate(graph):
        body = f"[{me}]"
        ext = [e for e in edges if e[0] in EXT_KINDS]
        others = [e for e in edges if e[0] not in EXT_KINDS]
        # extends must come first; more than one extends is itself an inheritance error (accepted outcome)
        src = "".join(edge_src(k, t, me) for k, t in ext) + body + "".join(edge_src(k, t, me) for k, t in others)
        templates[f"g{me}"] = src
    old = sys.getrecursionlimit()
    sys.setrecursionlimit(1000)
    try:
        got = _limited(templates, {}, "{% include 'g0' %}", {})
        got2 = _limited(templates, {"loop_iteration_limit": 10**6, "output_stream_limit": 10**7}, "{% render 'g0' %}", {})
    finally:
        sys.setrecursionlimit(old)
    if res is not None:
        res.evaluations += 2
        res.nontrivial.add(h64(templates))
    # with a small configured depth limit the nesting that is actually reached must stay within it: the chain of
    # wrapped contexts is at most L+1 long and no scope holds more than L+2 namespaces above the 4 fixed ones
    _install_depth_probe()
    for L in (8, 13):  # (a scope holds 4 fixed namespaces, so limits below 5 refuse every partial)
        _DEPTH.update(chain=0, scope=0)
        try:
            sys.setrecursionlimit(1000)
            g = _limited(templates, {"context_depth_limit": L}, "{% include 'g0' %}", {})
        finally:
            sys.setrecursionlimit(old)
        if res is not None:
            res.evaluations += 1
        if _DEPTH["chain"] > L + 1 or _DEPTH["scope"] > L + 2 + 4:
            out.append(("C06:nesting-exceeds-configured-depth-limit", {"templates": templates, "entry": "include", "limit": L}, f"context chain <= {L + 1}, scope size <= {L + 6}", dict(_DEPTH)))
        if not (g[0] == "liquid" and g[1] in ("ContextDepthError", "TemplateInheritanceError", "DisabledTagError")):
            out.append((f"C06:cyclic-graph-not-stopped-by-small-depth-limit:{g[0]}:{g[1] if g[0] != 'ok' else 'rendered'}", {"templates": templates, "entry": "include", "limit": L}, "ContextDepthError", list(g)[:2] if g[0] != "ok" else ["ok", g[1][:80]]))
    # a configured depth limit far ABOVE what the interpreter's stack can hold: the cycle still ends in a depth or
    # inheritance error (sync and async), never in RecursionError
    high = []
    # (graphs of one or two templates with one edge each, and the three-template rings)
    simple = all(len(e) == 1 for e in graph) and (n <= 2 or (n == 3 and all(e[0][1] == (i + 1) % 3 for i, e in enumerate(graph))))
    for mode in ("sync", "async") if simple else ():
        try:
            sys.setrecursionlimit(1000)
            high.append((f"include-depth-limit-5000-{mode}", _limited(templates, {"context_depth_limit": 5000}, "{% include 'g0' %}", {}, mode)))
        finally:
            sys.setrecursionlimit(old)
        if res is not None:
            res.evaluations += 1
    for how, g in (("include", got), ("render", got2), *high):
        if res is not None:
            res.outcomes.add(h64(list(g)))
        # (DisabledTagError: the cycle runs through an include below a render, which is refused before it can recurse)
        ok = g[0] == "liquid" and g[1] in ("ContextDepthError", "TemplateInheritanceError", "OutputStreamLimitError", "LoopIterationLimitError", "DisabledTagError")
        if not ok:
            out.append((f"C06:cyclic-graph-not-stopped:{g[0]}:{g[1] if g[0] != 'ok' else 'rendered'}", {"templates": templates, "entry": how}, "ContextDepthError or TemplateInheritanceError", list(g)[:2] if g[0] != "ok" else ["ok", g[1][:80]]))
    return out


# ------------------------------------------------------------------ namespace programs

SIZES = ["'x'", "'" + "y" * 40 + "'", "'" + "z" * 400 + "'", "(1..50) | join: ','", "arr", "'é' | append: big"]


def ns_programs(tier: str) -> list[tuple[str, dict[str, str]]]:
    stmts = []
    for i, s in enumerate(SIZES):
        stmts.append("{% assign v" + str(i) + " = " + s + " %}")
    stmts.append("{% capture cap %}" + "w" * 100 + "{{ big }}{% endcapture %}")
    stmts.append("{% assign v0 = 'overwritten-with-something-longer' %}")
    stmts.append("{% render 'np' %}")
    stmts.append("{% include 'ni' %}")
    stmts.append("{% macro nm %}{% assign inmacro = big %}{{ inmacro | size }}{% endmacro %}{% call nm %}")
    stmts.append("{% for i in (1..3) %}{% assign loopv = i | append: big %}{% endfor %}")
    # three live scopes: names bound in the MIDDLE one count while the innermost runs
    stmts.append("{% render 'np2' %}")
    stmts.append("{% render 'np3' %}")
    stmts.append("{% macro nm2 %}{% assign inm2 = big | append: 'm2' %}{% render 'np' %}{% endmacro %}{% call nm2 %}")
    templates = {"np": "{% assign inpartial = big | append: big %}{{ inpartial | size }}", "ni": "{% assign ininclude = big %}",
                 "np2": "{% assign mid = big | append: 'mid' %}{% render 'np' %}{{ mid | size }}", "np3": "{% capture c3 %}{{ big }}{{ big }}{% endcapture %}{% render 'np2' %}{{ c3 | size }}"}
    progs = []
    maxlen = 2 if tier == "quick" else 3
    for r in range(1, maxlen + 1):
        for combo in itertools.product(stmts, repeat=r):
            progs.append(("".join(combo) + "done", templates))
    return progs


class _PeakContext(RenderContext):
    peak = 0

    def assign(self, key: str, val: object) -> None:
        super().assign(key, val)
        # the harness's own measure: the local names of every live scope, from this one up to the root (not the carry
        # the implementation hands from scope to scope, which is what is being checked)
        s, ctx = 0, self
        while ctx is not None:
            s += sum(sys.getsizeof(obj, 1) for obj in ctx.locals.values())
            ctx = ctx.parent
        if s > _PeakContext.peak:
            _PeakContext.peak = s


def check_ns(src: str, templates: dict[str, str], res: ShardResult | None) -> list[tuple[str, Any, Any, Any]]:
    out: list[tuple[str, Any, Any, Any]] = []
    data = {"big": "B" * 300, "arr": list(range(30))}
    # measure the peak score with a huge limit (the score is only computed when a limit is set)
    env = impl.make_env(templates=templates, limits={"local_namespace_limit": 10**9})
    t = env.from_string(src)
    _PeakContext.peak = 0
    buf = io.StringIO()
    try:
        t.render_with_context(_PeakContext(t, global_data=t.make_globals(data)), buf)
    except LiquidError as e:
        out.append(("C06:namespace-program-fails:" + type(e).__name__, {"source": src}, "renders", type(e).__name__))
        return out
    peak, out0 = _PeakContext.peak, buf.getvalue()
    saw = set()
    for L in (peak - 1, peak, peak + 1):
        if L < 1:
            continue
        got = _limited(templates, {"local_namespace_limit": L}, src, data)
        if res is not None:
            res.evaluations += 1
        extra = {"source": src, "limit_kind": "namespace", "limit": L, "peak": peak}
        saw.add(got[0])
        if got[0] == "ok":
            if L < peak:
                out.append(("C06:namespace-over-limit-not-rejected", extra, "LocalNamespaceLimitError", {"peak": peak}))
            elif got[1] != out0:
                out.append(("C06:namespace-limit-changes-output", extra, out0, got[1]))
        elif got == ("liquid", "LocalNamespaceLimitError"):
            if L >= peak:
                out.append(("C06:namespace-limit-not-exceeded-but-error", extra, out0, list(got)))
        else:
            out.append((f"C06:namespace-limit-wrong-outcome:{got[0]}:{got[1]}", extra, "output or LocalNamespaceLimitError", list(got)))
    if res is not None and len(saw) == 2:
        res.nontrivial.add(h64(src))
    return out


# ------------------------------------------------------------------ depth limit sweep

DEPTH_PROGS = [
    ("{% include 'd1' %}", {"d1": "1{% include 'd2' %}", "d2": "2{% include 'd3' %}", "d3": "3"}),
    ("{% render 'd1' %}", {"d1": "1{% render 'd2' %}", "d2": "2{% render 'd3' %}", "d3": "3"}),
    ("{% for i in (1..2) %}{% with a: i %}{% if a %}{% include 'd1' %}{% endif %}{% endwith %}{% endfor %}", {"d1": "{% for j in (1..2) %}{{ j }}{% endfor %}"}),
    ("{% extends 'd1' %}{% block b %}L{{ block.super }}{% endblock %}", {"d1": "{% extends 'd2' %}{% block b %}M{{ block.super }}{% endblock %}", "d2": "[{% block b %}B{% endblock %}]"}),
    ("{% macro m x %}{{ x }}{% endmacro %}{% call m 1 %}{% render 'd1' %}", {"d1": "{% macro n %}n{% endmacro %}{% call n %}"}),
    ("{{ arr | map: x => x.a | join: ',' }}{% for i in arr %}{{ arr | where: y => y.a == i.a | size }}{% endfor %}", {}),
    ("plain text {{ g }}", {}),
]


def check_depth(i: int, res: ShardResult | None) -> list[tuple[str, Any, Any, Any]]:
    out: list[tuple[str, Any, Any, Any]] = []
    src, templates = DEPTH_PROGS[i]
    data = {"g": 1, "arr": [{"a": 1}, {"a": 2}]}
    out0 = _limited(templates, {}, src, data)
    first_ok = None
    for L in range(0, 41):
        got = _limited(templates, {"context_depth_limit": L}, src, data)
        if res is not None:
            res.evaluations += 1
        extra = {"source": src, "limit_kind": "depth", "limit": L}
        if got[0] == "ok":
            if first_ok is None:
                first_ok = L
            if got != out0:
                out.append(("C06:depth-limit-changes-output", extra, list(out0), list(got)))
        elif got == ("liquid", "ContextDepthError"):
            if first_ok is not None:
                out.append(("C06:depth-limit-not-monotonic", extra, f"success for every limit >= {first_ok}", list(got)))
        else:
            out.append((f"C06:depth-limit-wrong-outcome:{got[0]}:{got[1]}", extra, "output or ContextDepthError", list(got)))
    if first_ok is None or first_ok > 30:
        out.append(("C06:depth-default-limit-too-small-for-shallow-program", {"source": src}, "renders with the default limit", first_ok))
    if res is not None and first_ok:
        res.nontrivial.add(h64(src))
    return out


# ------------------------------------------------------------------ harness interface

_SP: dict[str, Any] = {}


def _spaces(tier: str) -> dict[str, Any]:
    if _SP.get("tier") != tier:
        _SP.update(tier=tier, nests=nest_space(tier), graphs=graph_space(tier), ns=ns_programs(tier), sequels=sequel_space(tier))
    return _SP


def plan(tier: str, seed: int):
    sp = _spaces(tier)
    shards: list[Any] = []
    for lo, hi in chunks(len(sp["nests"]), 300):
        shards.append(("nest", tier, lo, hi))
    for lo, hi in chunks(len(sp["graphs"]), 200):
        shards.append(("graph", tier, lo, hi))
    for lo, hi in chunks(len(sp["ns"]), 32):
        shards.append(("ns", tier, lo, hi))
    shards.append(("depth", tier, 0, len(DEPTH_PROGS)))
    for lo, hi in chunks(len(sp["sequels"]), 100):
        shards.append(("sequel", tier, lo, hi))
    meta = {
        "space_size": len(sp["nests"]) + len(sp["graphs"]) + len(sp["ns"]) + len(DEPTH_PROGS) + len(sp["sequels"]),
        "subspaces": {"loop-nests": len(sp["nests"]), "nest-after-prefix": len(sp["sequels"]), "cyclic-graphs": len(sp["graphs"]), "namespace-programs": len(sp["ns"]), "depth-programs": len(DEPTH_PROGS)},
        "bounds": {"nest_depth": 3 if tier == "quick" else 4, "graph_nodes": 3 if tier == "quick" else 4, "level_kinds": list(KINDS)},
    }
    return shards, meta


def run_shard(shard) -> ShardResult:
    res = ShardResult()
    kind, tier, lo, hi = shard
    sp = _spaces(tier)
    for i in range(lo, hi):
        res.cases += 1
        if kind == "nest":
            kinds, lens = sp["nests"][i]
            for sig, case, exp, obs in check_nest(kinds, lens, res):
                res.violation(sig, {"part": "nest", **case}, exp, obs, repro=_repro_nest(case))
        elif kind == "graph":
            for sig, case, exp, obs in check_graph(sp["graphs"][i], res):
                res.violation(sig, {"part": "graph", "index": i, "tier": tier, **case}, exp, obs)
        elif kind == "sequel":
            p, kinds, lens = sp["sequels"][i]
            for sig, case, exp, obs in check_sequel(p, kinds, lens, res):
                res.violation(sig, {"part": "sequel", **case}, exp, obs)
        elif kind == "ns":
            src, templates = sp["ns"][i]
            for sig, case, exp, obs in check_ns(src, templates, res):
                res.violation(sig, {"part": "ns", "index": i, "tier": tier, **case}, exp, obs)
        else:
            for sig, case, exp, obs in check_depth(i, res):
                res.violation(sig, {"part": "depth", "index": i, **case}, exp, obs)
    if kind == "nest" and lo % 7 == 0:
        kinds, lens = sp["nests"][lo]
        main, templates, data, _bad = build_nest(kinds, lens)
        res.samples.append({"kinds": kinds, "lengths": lens, "main": main, "templates": templates})
    return res


def _repro_nest(case: dict[str, Any]) -> str:
    main, templates, data, _ = build_nest(tuple(case["kinds"]), tuple(case["lengths"]))
    attr = {"output": "output_stream_limit", "loop": "loop_iteration_limit"}.get(case.get("limit_kind"), "loop_iteration_limit")
    return (
        "# stand-alone reproduction (C06)\nfrom liquid2 import DictLoader\nfrom liquid2.shopify import Environment\n"
        f"class E(Environment):\n    {attr} = {case.get('limit')}\n"
        f"env = E(loader=DictLoader({templates!r}))\n"
        f"out = env.from_string({main!r}).render(**{data!r})\n"
        f"print(repr(out), out.count({MARK!r}), len(out.encode()))\n"
    )


def replay(case: dict[str, Any]) -> list[dict[str, Any]]:
    res = ShardResult()
    part = case["part"]
    if part == "nest":
        only = (case["limit_kind"], case["limit"]) if case.get("limit") else None
        for sig, c, exp, obs in check_nest(tuple(case["kinds"]), tuple(case["lengths"]), None, only=only):
            res.violation(sig, case, exp, obs)
    elif part == "sequel":
        for sig, c, exp, obs in check_sequel(case["prefix"], tuple(case["kinds"]), tuple(case["lengths"]), None, only=case.get("limit")):
            res.violation(sig, case, exp, obs)
    elif part == "graph":
        for sig, c, exp, obs in check_graph(_spaces(case.get("tier", "quick"))["graphs"][case["index"]], None):
            res.violation(sig, case, exp, obs)
    elif part == "ns":
        src, templates = _spaces(case.get("tier", "quick"))["ns"][case["index"]]
        for sig, c, exp, obs in check_ns(src, templates, None):
            res.violation(sig, case, exp, obs)
    else:
        for sig, c, exp, obs in check_depth(case["index"], None):
            res.violation(sig, case, exp, obs)
    return res.violations
