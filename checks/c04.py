"""C04 — auto-escape: untrusted data never reaches the output unescaped.

auto_escape=True, default and Shopify environments. Sources: plain `str` data saturated with the five HTML-significant
characters and a fake entity (<q a='1' b="2">&zz;), also nested in lists and hashes (keys and values), as filter
arguments, and in encoded forms a filter can decode (%3Cq%3E..., base64, &lt;q&gt;...). Flows: every chain of <= 2
filters drawn from all registered filters except `safe` (quick), <= 3 over the string-transforming filters (thorough),
with the payload as the left value or as any argument and template literals (free of the five characters) elsewhere.
Sinks: {{ }}, echo, assign -> output, capture -> output, capture of an included / rendered partial, cycle, join with a
data separator, template-string interpolation, include..with, render argument, macro argument, with, translate block
variable, t / gettext keyword argument and message, for item, case / when echo, block.super, tablerow cell, ternary.
Oracle: after deleting the engine's own markup (<br />, the tablerow tags: an explicit closed list) the output
contains none of < > ' " and not the payload's ampersand in its original context (&zz;).
"""

from __future__ import annotations

import base64
import itertools
import re
import urllib.parse
from typing import Any

from liquid2.exceptions import LiquidError

from mc import impl
from mc.harness import ShardResult
from mc.harness import chunks
from mc.harness import h64
from mc.vloop import run_solo

ID = "C04"
LEVEL = "exploration"
ENGINES = ["E1 spaces", "taint by construction"]
RULE = (
    "payload forms x filter chains (<=2 over all filters, <=3 over string filters) x payload position (left value / each "
    "argument) x sinks; non-trivial when the render succeeded and some trace of the payload (its letters 'zz' or 'q a=') "
    "reached the output, i.e. the flow really carried data to the sink; distinct by (sink, chain, payload form)"
)
LEVEL_TEXT = (
    "Bounded-exhaustive taint exploration on the real implementation: the only source of HTML-significant characters "
    "is the data by construction, so any such character in the output (minus a closed list of engine markup) is a leak."
)
LEVEL_NOTE = (
    "Template literals contain none of the five characters and `safe` / Markup / __html__ are not used; engine markup is "
    "the closed list in ENGINE_MARKUP; truncated entities (e.g. '&am') are engine text and are not flagged."
)
TECHNIQUE = "bounded-exhaustive enumeration of filter chains x payload positions x sinks with taint-by-construction and an output-character oracle"
ASSUMPTIONS = ["every HTML-significant character in the output that is not engine markup came from the data"]

P = "<q a='1' b=\"2\">&zz;"
FORMS: dict[str, Any] = {
    "plain": P,
    "list": [P, "x" + P],
    "hash-value": {"k": P, "j": [P]},
    "hash-key": {P: "v"},
    "urlencoded": urllib.parse.quote_plus(P),
    "base64": base64.b64encode(P.encode()).decode(),
    "base64url": base64.urlsafe_b64encode(P.encode()).decode(),
    "entities": "&lt;q a=&#39;1&#39; b=&quot;2&quot;&gt;&amp;zz;",
    "newlines": P + "\n" + P + "\r\n",
    "number-like": "1" + P,
}

ENGINE_MARKUP = [
    re.compile(r"<br />", re.I),  # (possibly re-cased by upcase / capitalize applied after newline_to_br)
    re.compile(r'<tr class="row\d+">'),
    re.compile(r'<td class="col\d+">'),
    re.compile(r"</td>"),
    re.compile(r"</tr>"),
]

STRING_FILTERS = [
    "append", "prepend", "capitalize", "downcase", "upcase", "escape", "escape_once", "lstrip", "rstrip", "strip", "newline_to_br",
    "remove", "remove_first", "remove_last", "replace", "replace_first", "replace_last", "slice", "split", "strip_html", "strip_newlines",
    "truncate", "truncatewords", "url_encode", "url_decode", "join", "first", "last", "default", "json", "base64_decode", "base64_url_safe_decode",
    "base64_encode", "t", "gettext", "date", "reverse", "sort", "map", "concat", "uniq", "compact",
]  # fmt: skip

SINKS = [
    "{{ @ }}",
    "{% echo @ %}",
    "{% assign a = @ %}{{ a }}",
    "{% capture c %}{{ @ }}{% endcapture %}{{ c }}{{ c | upcase }}",
    "{% capture c %}{% include 'show', p: v %}{% render 'show', p: v %}{% endcapture %}{{ c }}",
    "{% assign a = @ %}{% cycle a, 'lit' %}{% cycle 'g': a, a %}",
    "{% assign a = @ %}{{ 'lit,lit' | split: ',' | join: a }}{{ v | join: a }}",
    "{% assign a = @ %}{{ 'pre ${a} mid ${ a | append: a } post' }}",
    "{% assign a = @ %}{% include 'show' with a as p %}{% include 'show', p: a %}",
    "{% assign a = @ %}{% render 'show' with a as p %}{% render 'show', p: a %}{% render 'show' for v as p %}",
    "{% macro m p, q: v %}{{ p }}{{ q }}{{ args }}{{ kwargs }}{% endmacro %}{% assign a = @ %}{% call m a %}{% call m 'lit', a, z: a %}",
    "{% assign a = @ %}{% with p: a %}{{ p }}{% endwith %}",
    "{% assign a = @ %}{% translate x: a, y: v %}Hello {{ x }} and {{ y }}{% plural %}Hellos {{ x }}{% endtranslate %}",
    "{% assign a = @ %}{{ 'Hi %(x)s' | t: x: a }}{{ 'Hi %(x)s' | gettext: x: a }}{{ a | t }}{{ a | gettext }}{{ 'one' | ngettext: a, 2 }}{{ a | pgettext: a }}",
    "{% assign a = @ %}{{ 'one' | t: plural: a, count: 2 }}{{ 'one' | t: a, plural: a, count: 3 }}{{ 'one' | t: plural: a, count: 1 }}{{ 'one' | npgettext: a, a, 2 }}{{ a | ngettext: a, 1 }}{{ 'one %(count)s' | t: plural: 'many %(count)s', count: a }}",
    # messages with a stray '%' (one statement per sink: a statement that raises must not hide the others)
    "{% assign a = @ %}{{ '50% off for %(x)s' | t: x: a }}",
    "{% assign a = @ %}{{ '%(x)s 100%' | gettext: x: a }}",
    "{% assign a = @ %}{{ '%(x)s %s' | t: x: a }}{{ '%(y)s %(x)s' | t: x: a }}",
    "{% assign a = @ %}{{ 'one %(x)s 5%' | t: plural: 'many %(x)s 5%', count: 2, x: a }}",
    "{% assign a = @ %}{% translate x: a %}50% {{ x }} %(y)s{% endtranslate %}",
    "{% assign a = @ %}{{ empty_hash[a] }}{{ [a] }}{{ empty_hash[a].x }}{{ nosuch[a][a] }}{{ a.nosuch }}{% capture c %}{{ empty_hash[a] }}{% endcapture %}{{ c }}{% echo empty_hash[a] %}{{ empty_hash[a] | upcase }}",
    "{% assign a = @ %}{% for i in a %}{{ i }}{{ forloop.index }}{% endfor %}{% for i in v %}{{ i }}{% endfor %}",
    "{% assign a = @ %}{% case a %}{% when a %}{{ a }}{% else %}{{ a }}{% endcase %}",
    "{% assign a = @ %}{% if a %}{{ a }}{% endif %}{{ a if a else a }}{{ 'lit' if false else a | append: a || prepend: a }}",
    "{% extends 'base' %}{% block b %}{{ @ }}{{ block.super }}{% endblock %}",
    "{% assign a = @ %}{% tablerow i in a cols: 2 %}{{ i }}{{ a }}{% endtablerow %}",
    "{% liquid\n assign a = @\n echo a\n%}",
    "{% increment a %}{% assign a = @ %}{{ a }}{{ a | size }}{{ a.size }}{{ a.first }}{{ a[0] }}{{ a.k }}{{ a['k'] }}",
]

TEMPLATES = {"show": "[{{ p }}|{{ p | upcase }}]", "base": "<<{% block b %}{{ v }}{% endblock %}>>"}
# the base template's own literal '<<' '>>' is author text: it is removed with the engine markup below
AUTHOR_LITERALS = [re.compile(r"^<<"), re.compile(r">>$")]

ARGSETS = ["", ": 'x'", ": 2", ": 'x', 'y'", ": v", ": 'x', v", ": v, 'x'", ": v, v"]

_ENVS: dict[str, Any] = {}


def envs() -> dict[str, Any]:
    if not _ENVS:
        _ENVS["default"] = impl.make_env(auto_escape=True, templates=TEMPLATES)
        _ENVS["shopify"] = impl.make_env(auto_escape=True, templates=TEMPLATES, shopify=True)
        from liquid2.undefined import DebugUndefined

        # an undefined type that describes what was missing: the description can quote data
        _ENVS["debug"] = impl.make_env(auto_escape=True, templates=TEMPLATES, shopify=True, undefined=DebugUndefined)
        # a caching loader shared with an environment that does NOT escape, which has loaded every partial first
        from liquid2 import CachingDictLoader

        shared = CachingDictLoader(dict(TEMPLATES))
        other = impl.make_env(auto_escape=False, loader=shared, shopify=True)
        for name in TEMPLATES:
            other.get_template(name)
        _ENVS["shared"] = impl.make_env(auto_escape=True, loader=shared, shopify=True)
        _ENVS["shared-other"] = other
    return _ENVS


def leak(rendered: str, sink: str) -> str | None:
    s = rendered
    if "extends" in sink:
        for r in AUTHOR_LITERALS:
            s = r.sub("", s)
    for r in ENGINE_MARKUP:
        s = r.sub("", s)
    for ch in "<>'\"":
        if ch in s:
            i = s.index(ch)
            return f"raw {ch!r} at ...{s[max(0, i - 20) : i + 20]!r}"
    if "&zz;" in s:
        i = s.index("&zz;")
        return f"raw '&' of the payload at ...{s[max(0, i - 20) : i + 10]!r}"
    return None


def check_expr(expr: str, sink: str, form: str, env_name: str, res: ShardResult | None, mode: str = "sync") -> list[tuple[str, Any, Any]]:
    out: list[tuple[str, Any, Any]] = []
    if "tablerow" in sink and env_name != "shopify":
        return out
    src = sink.replace("@", expr)
    env = envs()[env_name]
    if env_name == "shared":
        for name in TEMPLATES:  # the two environments take turns
            envs()["shared-other"].get_template(name)
    try:
        t = env.from_string(src)
    except LiquidError:
        return out
    except Exception:  # noqa: BLE001
        return out
    try:
        if mode == "async":
            kind, val = run_solo(t.render_async(v=FORMS[form], empty_hash={}))
            if kind != "ok":
                raise val
            rendered = val
        else:
            rendered = t.render(v=FORMS[form], empty_hash={})
    except LiquidError:
        if res is not None:
            res.evaluations += 1
        return out
    except Exception as x:  # noqa: BLE001  (C02's subject)
        if res is not None:
            res.count("foreign:" + type(x).__name__)
        return out
    if res is not None:
        res.evaluations += 1
        if "zz" in rendered or "q a=" in rendered:
            res.nontrivial.add(h64([src, form, env_name, mode]))
        res.outcomes.add(h64([bool(rendered)]))
    l = leak(rendered, sink)
    if l:
        fs = re.findall(r"\|\s*([a-z_0-9]+)", expr)
        out.append((f"C04:unescaped-data-in-output:{'+'.join(fs) or 'no-filter'}:{_sinkname(sink)}", {"source": src, "form": form, "env": env_name, "mode": mode}, l))
    return out


def _sinkname(sink: str) -> str:
    m = re.search(r"\{%\s*(?:assign a = @ %\}\{%\s*)?([a-z]+)", sink)
    if sink.startswith("{{ @"):
        return "output"
    return m.group(1) if m else "output"


def chains(tier: str, filters: list[str]) -> list[str]:
    """Filtered expressions over the variable v (payload) with literals elsewhere."""
    exprs = ["v", "v.k", "v[0]", "v.first", "v.j", "v | first", "v | last"]
    one = []
    for f in filters:
        for a in ARGSETS:
            one.append("| " + f + a)
    for o in one:
        exprs.append("v " + o)
        exprs.append("'lit' " + o)
    # chains of 2: (every filter with the payload somewhere) then (every filter with literal or payload argument)
    second = []
    for f in filters:
        for a in ("", ": 'x'", ": v"):
            second.append("| " + f + a)
    firsts = ["| " + f + a for f in filters for a in ("", ": 'x'", ": v")]
    for a, b in itertools.product(firsts, second):
        exprs.append("v " + a + " " + b)
    if tier == "thorough":
        sf = [f for f in STRING_FILTERS if f in filters]
        thirds = ["| " + f + a for f in sf for a in ("", ": v")]
        for a, b, c in itertools.product(thirds, repeat=3):
            exprs.append("v " + a + " " + b + " " + c)
    return exprs


_SP: dict[str, Any] = {}


def _space(tier: str) -> dict[str, Any]:
    if _SP.get("tier") == tier:
        return _SP
    e = envs()["shopify"]
    filters = sorted(f for f in e.filters if f != "safe")
    exprs = chains(tier, filters)
    _SP.update(tier=tier, exprs=exprs, filters=filters)
    return _SP


def plan(tier: str, seed: int):
    sp = _space(tier)
    n = len(sp["exprs"])
    shards = [(tier, lo, hi) for lo, hi in chunks(n, max(16, n // 150))]
    meta = {
        "space_size": n,
        "subspaces": {"filtered-expressions": n, "sinks": len(SINKS), "payload-forms": len(FORMS), "filters": len(sp["filters"])},
        "bounds": {"chain_len": 2 if tier == "quick" else 3, "environments": ["default", "shopify"]},
    }
    return shards, meta


def run_shard(shard) -> ShardResult:
    tier, lo, hi = shard
    sp = _space(tier)
    res = ShardResult()
    forms = list(FORMS)
    for i in range(lo, hi):
        expr = sp["exprs"][i]
        res.cases += 1
        nfilters = expr.count("|")
        # every sink x every payload form for short chains; the output sink x the decodable forms for long ones
        if nfilters <= 1:
            combos = [(s, f, en, "sync") for s in SINKS for f in forms for en in ("shopify",)] + [(SINKS[0], f, "default", "sync") for f in forms]
            # the asynchronous twins of every sink (each node has a separate render_to_output_async)
            combos += [(s, f, "shopify", "async") for s in SINKS for f in (("plain", "list", "hash-value") if nfilters == 0 else ("plain",))]
            combos += [(s, "plain", "debug", m) for s in SINKS for m in ("sync", "async")]
            combos += [(s, "plain", "shared", m) for s in SINKS for m in ("sync", "async")]
        else:
            combos = [(SINKS[0], f, "shopify", "sync") for f in forms] + [(s, "plain", "shopify", "sync") for s in (SINKS[3], SINKS[7], SINKS[12])]
        for sink, form, en, mode in combos:
            for sig, case, obs in check_expr(expr, sink, form, en, res, mode):
                res.violation(sig, {"tier": tier, "expr": expr, "sink": sink, **case}, "no unescaped < > ' \" & from data", obs, repro=_repro(case))
    if lo % 9 == 0:
        res.samples.append({"expr": sp["exprs"][lo], "sink": SINKS[(lo // 9) % len(SINKS)], "payload": P})
    return res


def _repro(case: dict[str, Any]) -> str:
    return (
        "# stand-alone reproduction (C04)\nfrom liquid2 import DictLoader\nfrom liquid2.shopify import Environment\n"
        f"env = Environment(auto_escape=True, loader=DictLoader({TEMPLATES!r}))\n"
        + (f"import asyncio\nprint(asyncio.run(env.from_string({case['source']!r}).render_async(v={FORMS[case['form']]!r})))\n"
           if case.get("mode") == "async" else f"print(env.from_string({case['source']!r}).render(v={FORMS[case['form']]!r}))\n")
    )


def replay(case: dict[str, Any]) -> list[dict[str, Any]]:
    res = ShardResult()
    for sig, c, obs in check_expr(case["expr"], case["sink"], case["form"], case["env"], None, case.get("mode", "sync")):
        res.violation(sig, case, "no unescaped < > ' \" & from data", obs)
    return res.violations
