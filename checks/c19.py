"""C19 — built-in filters obey their defining laws.

Per filter, every argument tuple from typed domains: strings = all words of length <= 2 (quick) / 3 (thorough) over
{a B space e-acute sharp-s dz-ligature emoji , %} plus a few longer ones; ints {0 +-1 +-2 +-7 10 2^31 2^53+1 +-10^20};
floats {+-0.0 0.1 0.5 1.5 2.5 -2.5 1e16 1e-7}; numeric strings of those; arrays = all sequences of length <= 3 / 4
over {1 2 "a" "B" nil true {k:1} {k:2} {j:1} {k:nil} {k:0} {k:true} {k:false}}; keys {k j}. Every law is evaluated both by calling the
registered filter and through render('{{ x | f: ... }}') (string-key and lambda forms).
Laws: ordered permutations (sort / sort_natural / sort_numeric / reverse); where + reject partition in order;
find / find_index / has agree with where; uniq keeps first occurrences; compact drops exactly nils;
first / last / slice / concat / map by definition; string-key == lambda form; permutation / duplication
invariance; join.split, url_decode.url_encode, base64 decode.encode identities; escape_once idempotent and
escape_once.escape == escape; truncate / truncatewords / strip / lstrip / rstrip / upcase / downcase / append /
prepend / replace* / remove* equal their string definitions; plus / minus / times / divided_by / modulo / abs /
ceil / floor / round / at_least / at_most equal exact decimal / integer arithmetic.
"""

from __future__ import annotations

import base64
import html
import itertools
import json
import math
import urllib.parse
from decimal import Decimal
from typing import Any

from liquid2.exceptions import LiquidError

from mc import impl
from mc.harness import ShardResult
from mc.harness import chunks
from mc.harness import h64

ID = "C19"
LEVEL = "exploration"
ENGINES = ["E1 spaces"]
RULE = (
    "every argument tuple of the typed domains per filter law; non-trivial when the filter returned a value (did not "
    "raise) and the input is not the empty string / empty array; distinct by (law, arguments)"
)
LEVEL_TEXT = (
    "Bounded-exhaustive exploration over typed argument domains per filter with the defining laws as executable "
    "predicates (permutation/partition/inverse/idempotence/definition), evaluated on the real filters through the API "
    "and through rendered templates."
)
LEVEL_NOTE = (
    "Domains are representatives of the classes the code distinguishes; ties in `round` (x.5) and the boundary "
    "len == n of truncate / truncatewords are not specified by the documentation and are accepted either way."
)
TECHNIQUE = "bounded-exhaustive enumeration of typed argument tuples per filter against executable defining laws"
ASSUMPTIONS = ["Python str methods / Decimal / urllib / base64 / html are the reference definitions"]

ALPHA = ["a", "B", " ", "é", "ß", "ǆ", "\U0001f600", ",", "%"]
LONG = ["Ground control to Major Tom.", "  padded \t\n", "a,b,,c", "one  two\tthree\nfour", "<p>x &amp; y</p>", "%41+b c&d=e/é"]
INTS = [0, 1, -1, 2, -2, 7, -7, 10, 2**31, 2**53 + 1, 10**20, -(10**20)]
FLOATS = [0.0, -0.0, 0.1, 0.5, 1.5, 2.5, -2.5, 1e16, 1e-7]
ELEMS: list[Any] = [1, 2, "a", "B", None, True, {"k": 1}, {"k": 2}, {"j": 1}, {"k": None}, {"k": 0}, {"k": True}, {"k": False}, 1.0, 0.0, False, 0]

_ENV: dict[str, Any] = {}


def env() -> Any:
    if "e" not in _ENV:
        _ENV["e"] = impl.make_env(shopify=True)
    return _ENV["e"]


def call(name: str, left: Any, *args: Any, **kw: Any) -> tuple[str, Any]:
    """Apply a registered filter through the render context machinery (context/environment injected)."""
    e = env()
    from liquid2 import RenderContext

    t = _ENV.setdefault("t", e.from_string(""))
    ctx = RenderContext(t)
    try:
        f = ctx.filter(name, token=None)  # type: ignore[arg-type]
        return ("ok", f(left, *args, **kw))
    except LiquidError as x:
        return ("liquid", type(x).__name__)
    except TypeError as x:
        return ("liquid", "TypeError->LiquidTypeError")  # converted by Filter.evaluate
    except Exception as x:  # noqa: BLE001
        return ("foreign", f"{type(x).__name__}: {x}")


def env_kind(kind: str) -> Any:
    if kind not in _ENV:
        import liquid2

        _ENV[kind] = impl.make_env(shopify=True, auto_escape=True) if kind == "auto_escape" else impl.make_env(shopify=True, undefined=getattr(liquid2, kind))
    return _ENV[kind]


def render(src: str, _env: str = "", **data: Any) -> tuple[str, Any]:
    try:
        return ("ok", (env_kind(_env) if _env else env()).from_string(src).render(**data))
    except LiquidError as x:
        return ("liquid", type(x).__name__)
    except Exception as x:  # noqa: BLE001
        return ("foreign", f"{type(x).__name__}: {x}")


def strings(maxlen: int) -> list[str]:
    out = [""]
    for n in range(1, maxlen + 1):
        out += ["".join(c) for c in itertools.product(ALPHA, repeat=n)]
    return out + LONG


def arrays(maxlen: int) -> list[list[Any]]:
    out: list[list[Any]] = []
    for n in range(0, maxlen + 1):
        pool = ELEMS if n <= 3 else ELEMS[:7] + ELEMS[10:12]  # the longest arrays over a reduced element set
        out += [list(c) for c in itertools.product(pool, repeat=n)]
    return out


def same(a: Any, b: Any) -> bool:
    """Structural equality that distinguishes True from 1 and keeps order."""
    return json.dumps(a, default=repr, sort_keys=False) == json.dumps(b, default=repr, sort_keys=False) and _types(a) == _types(b)


def _types(x: Any) -> Any:
    if isinstance(x, list):
        return [_types(y) for y in x]
    if isinstance(x, dict):
        return {k: _types(v) for k, v in x.items()}
    return type(x).__name__


def is_perm(a: list[Any], b: list[Any]) -> bool:
    rest = list(b)
    for x in a:
        for i, y in enumerate(rest):
            if same(x, y):
                del rest[i]
                break
        else:
            return False
    return not rest


V = list  # violations: (law, args, expected, observed)


# ------------------------------------------------------------------ array laws


def array_laws(arr: list[Any], out: V) -> bool:
    """Returns True if at least one law evaluated on a returned value."""
    hit = False
    # reverse
    r = call("reverse", arr)
    if r[0] == "ok":
        hit = True
        if not same(r[1], arr[::-1]):
            out.append(("reverse-is-reversal", [arr], arr[::-1], r[1]))
        rr = call("reverse", r[1])
        if rr[0] == "ok" and not same(rr[1], arr):
            out.append(("reverse-involution", [arr], arr, rr[1]))
    elif r[0] == "foreign":
        out.append(("reverse-foreign", [arr], "value or LiquidError", r[1]))
    # compact
    c = call("compact", arr)
    if c[0] == "ok":
        if not same(c[1], [x for x in arr if x is not None]):
            out.append(("compact-drops-exactly-nils", [arr], [x for x in arr if x is not None], c[1]))
    elif c[0] == "foreign":
        out.append(("compact-foreign", [arr], "value or LiquidError", c[1]))
    # uniq keeps first occurrences
    u = call("uniq", arr)
    if u[0] == "ok":
        want: list[Any] = []
        for x in arr:
            if not any(_liquid_eq(x, y) for y in want):
                want.append(x)
        if not same(u[1], want):
            out.append(("uniq-keeps-first-occurrences", [arr], want, u[1]))
        uu = call("uniq", u[1])
        if uu[0] == "ok" and not same(uu[1], u[1]):
            out.append(("uniq-idempotent", [arr], u[1], uu[1]))
    elif u[0] == "foreign":
        out.append(("uniq-foreign", [arr], "value or LiquidError", u[1]))
    # first / last / size / concat / slice
    f, l = call("first", arr), call("last", arr)
    if f[0] == "ok" and not same(f[1], arr[0] if arr else None):
        out.append(("first-by-definition", [arr], arr[0] if arr else None, f[1]))
    if l[0] == "ok" and not same(l[1], arr[-1] if arr else None):
        out.append(("last-by-definition", [arr], arr[-1] if arr else None, l[1]))
    s = call("size", arr)
    if s != ("ok", len(arr)):
        out.append(("size-by-definition", [arr], len(arr), s))
    cc = call("concat", arr, arr[:2])
    if cc[0] == "ok" and not same(cc[1], arr + arr[:2]):
        out.append(("concat-by-definition", [arr, arr[:2]], arr + arr[:2], cc[1]))
    for start, length in ((0, 1), (1, 2), (-2, 2), (-1, 5), (5, 1), (0, 0)):
        sl = call("slice", arr, start, length)
        end = start + length
        want_sl = arr[start : (None if start < 0 <= end else end)]
        if sl[0] == "ok" and not same(sl[1], want_sl):
            out.append(("slice-by-definition", [arr, start, length], want_sl, sl[1]))
    # sort family: ordered permutation; failure must not depend on element order
    for name in ("sort", "sort_natural", "sort_numeric"):
        r0 = call(name, arr)
        if r0[0] == "foreign":
            out.append((f"{name}-foreign", [arr], "value or LiquidError", r0[1]))
            continue
        if r0[0] == "ok":
            hit = True
            if not is_perm(r0[1], arr):
                out.append((f"{name}-is-permutation", [arr], "a permutation of the input", r0[1]))
            again = call(name, r0[1])
            if again[0] == "ok" and not same(again[1], r0[1]):
                out.append((f"{name}-idempotent", [arr], r0[1], again[1]))
            if name == "sort" and all(isinstance(x, int) and not isinstance(x, bool) for x in arr) and r0[1] != sorted(arr):
                out.append(("sort-ordered", [arr], sorted(arr), r0[1]))
            if name == "sort" and arr and all(isinstance(x, str) for x in arr) and r0[1] != sorted(arr):
                out.append(("sort-ordered", [arr], sorted(arr), r0[1]))
            if name == "sort_natural" and arr and all(isinstance(x, str) for x in arr):
                keys = [x.lower() for x in r0[1]]
                if keys != sorted(keys):
                    out.append(("sort_natural-ordered-case-insensitively", [arr], sorted(arr, key=str.lower), r0[1]))
        if len(arr) <= 3:
            for p in itertools.permutations(arr):
                rp = call(name, list(p))
                if rp[0] != r0[0]:
                    out.append((f"{name}-outcome-depends-on-element-order", [arr, list(p)], r0[0], rp))
                    break
                if name != "sort_natural" and rp[0] == "ok" and r0[0] == "ok" and len(set(map(repr, arr))) == len(arr):
                    # distinct elements with a total order: the result is unique
                    if all(isinstance(x, int) and not isinstance(x, bool) for x in arr) and not same(rp[1], r0[1]):
                        out.append((f"{name}-result-depends-on-element-order", [arr, list(p)], r0[1], rp[1]))
                        break
                    # sort_numeric: numbers by value, everything that is not a number after them. With numerically
                    # distinct numbers and at most one other element there is exactly one such order
                    nums_ = [x for x in arr if isinstance(x, (int, float)) and not isinstance(x, bool)]
                    others_ = [x for x in arr if not (isinstance(x, (int, float)) and not isinstance(x, bool))]
                    plain_ = all(x is None or isinstance(x, bool) or (isinstance(x, str) and not any(ch.isdigit() for ch in x)) for x in others_)  # (no digits in their string form)
                    if name == "sort_numeric" and len(others_) <= 1 and plain_ and len(set(nums_)) == len(nums_) and not same(rp[1], r0[1]):
                        out.append((f"{name}-result-depends-on-element-order", [arr, list(p)], r0[1], rp[1]))
                        break
    # keyed laws
    objs = [x for x in arr if isinstance(x, dict)]
    if objs or not arr:
        for key in ("k", "j"):
            keyed_laws(arr, key, out)
            hit = True
    # sum: permutation invariant, equals arithmetic on numbers
    sm = call("sum", arr)
    if sm[0] == "ok":
        nums = [x for x in arr if isinstance(x, (int, float)) and not isinstance(x, bool)]
        if all(isinstance(x, (int, float, str, type(None), bool, dict)) for x in arr):
            pass
        for p in itertools.islice(itertools.permutations(arr), 6):
            sp = call("sum", list(p))
            if sp != sm:
                out.append(("sum-permutation-invariant", [arr, list(p)], sm, sp))
                break
    elif sm[0] == "foreign":
        out.append(("sum-foreign", [arr], "value or LiquidError", sm[1]))
    # join . split (elements that are plain strings without the separator)
    if arr and all(isinstance(x, str) and "|" not in x and x for x in arr):
        j = call("join", arr, "|")
        if j[0] == "ok":
            sp2 = call("split", j[1], "|")
            if sp2[0] == "ok" and not same(sp2[1], arr):
                out.append(("split-inverts-join", [arr], arr, sp2[1]))
    return hit


def _liquid_eq(a: Any, b: Any) -> bool:
    if isinstance(a, bool) or isinstance(b, bool):
        return isinstance(a, bool) and isinstance(b, bool) and a == b
    return a == b


def _get(x: Any, key: str) -> Any:
    return x.get(key) if isinstance(x, dict) else None


def _lq(v: Any) -> str:
    """Liquid's string form of the values used under keys here."""
    if v is None:
        return ""
    if v is True:
        return "true"
    if v is False:
        return "false"
    return str(v)


def keyed_laws(arr: list[Any], key: str, out: V) -> None:
    truthy = lambda v: v is not None and v is not False  # noqa: E731
    w = call("where", arr, key)
    rj = call("reject", arr, key)
    if w[0] == "foreign" or rj[0] == "foreign":
        out.append(("where-reject-foreign", [arr, key], "value or LiquidError", [w, rj]))
        return
    if w[0] == "ok" and rj[0] == "ok":
        want_w = [x for x in arr if truthy(_get(x, key))] if all(isinstance(x, dict) or x is None or not hasattr(x, "__getitem__") for x in arr) else None
        # partition preserving order
        merged, wi, ri = [], 0, 0
        for x in arr:
            if wi < len(w[1]) and w[1][wi] is x:
                merged.append(x)
                wi += 1
            elif ri < len(rj[1]) and rj[1][ri] is x:
                merged.append(x)
                ri += 1
        if len(merged) != len(arr) or wi != len(w[1]) or ri != len(rj[1]):
            out.append(("where-reject-partition-in-order", [arr, key], "where + reject partition the input preserving order", {"where": w[1], "reject": rj[1]}))
        if want_w is not None and not same(w[1], want_w):
            out.append(("where-selects-truthy-key", [arr, key], want_w, w[1]))
        # find / find_index / has agree with where
        fd, fi, hs = call("find", arr, key), call("find_index", arr, key), call("has", arr, key)
        first_w = w[1][0] if w[1] else None
        if fd[0] == "ok" and not same(fd[1], first_w):
            out.append(("find-is-first-of-where", [arr, key], first_w, fd[1]))
        if fi[0] == "ok":
            want_i = next((i for i, x in enumerate(arr) if w[1] and x is w[1][0]), None)
            if fi[1] != want_i:
                out.append(("find_index-agrees-with-find", [arr, key], want_i, fi[1]))
        if hs[0] == "ok" and hs[1] != bool(w[1]):
            out.append(("has-agrees-with-where", [arr, key], bool(w[1]), hs[1]))
    # with a value argument
    for val in (1, 2):
        wv, rv = call("where", arr, key, val), call("reject", arr, key, val)
        if wv[0] == "ok" and rv[0] == "ok" and len(wv[1]) + len(rv[1]) != len(arr):
            out.append(("where-reject-value-partition", [arr, key, val], len(arr), [wv[1], rv[1]]))
        if wv[0] == "ok" and all(isinstance(x, dict) for x in arr):
            want_v = [x for x in arr if _liquid_eq(_get(x, key), val)]
            if not same(wv[1], want_v):
                out.append(("where-value-selects-equal", [arr, key, val], want_v, wv[1]))
        fv, hv = call("find", arr, key, val), call("has", arr, key, val)
        if wv[0] == "ok" and fv[0] == "ok" and not same(fv[1], wv[1][0] if wv[1] else None):
            out.append(("find-value-is-first-of-where", [arr, key, val], wv[1][0] if wv[1] else None, fv[1]))
        if wv[0] == "ok" and hv[0] == "ok" and hv[1] != bool(wv[1]):
            out.append(("has-value-agrees-with-where", [arr, key, val], bool(wv[1]), hv[1]))
    # map by definition (hashes only)
    if all(isinstance(x, dict) for x in arr):
        m = call("map", arr, key)
        if m[0] == "ok":
            got = m[1]
            if not same(got, [_get(x, key) for x in arr]):
                out.append(("map-by-definition", [arr, key], [_get(x, key) for x in arr], got))
            # what map returns is a plain array: compact drops its nils and json can write it
            cm = call("compact", m[1])
            if cm[0] == "ok" and not same(cm[1], [v for v in (_get(x, key) for x in arr) if v is not None]):
                out.append(("compact-of-map-drops-the-missing", [arr, key], [v for v in (_get(x, key) for x in arr) if v is not None], cm[1]))
            for f2 in ("json", "compact | json", "uniq | json", "reverse | json", "first | json"):
                jm = render("{{ arr | map: '" + key + "' | " + f2 + " }}", arr=arr)
                if jm[0] != "ok":
                    out.append((f"map-result-is-a-plain-array:{f2.split(' ')[0]}", [arr, key], "renders", jm))
        # string-key form == lambda form, through templates
        for f, extra in (("map", ""), ("where", ""), ("reject", ""), ("find", ""), ("find_index", ""), ("has", ""), ("sort", ""), ("sort_natural", ""),
                         ("sort_numeric", ""), ("uniq", ""), ("compact", ""), ("sum", "")):
            a = render("{{ arr | " + f + ": '" + key + "' | json }}", arr=arr)
            b = render("{{ arr | " + f + ": x => x." + key + " | json }}", arr=arr)
            if a != b and not (a[0] != "ok" and b[0] != "ok"):
                out.append((f"string-key-equals-lambda-form:{f}", [arr, key], a, b))
            # the two forms also agree under the strict undefined policies (an item without the key is not an error in
            # either form, or is one in both)
            for kind in ("StrictUndefined", "FalsyStrictUndefined"):
                a = render("{{ arr | " + f + ": '" + key + "' | json }}", kind, arr=arr)
                b = render("{{ arr | " + f + ": x => x." + key + " | json }}", kind, arr=arr)
                if a != b and not (a[0] != "ok" and b[0] != "ok"):
                    out.append((f"string-key-equals-lambda-form:{f}:{kind}", [arr, key], a, b))
        # applying a filter leaves the render as it found it: the same expression evaluates to the same value again, and
        # a variable named like the lambda's parameter is what it was (also when the lambda is left at the first match)
        for f in ("find", "find_index", "has", "where", "reject", "map", "sort", "uniq", "sum"):
            expr = "{{ items | " + f + ": x => x." + key + " | json }}"
            r = render("{% assign x = 'outer' %}" + expr + "@{{ x }}@" + expr + "@{% for y in (1..3) %}" + expr + "{% endfor %}@{{ x }}{{ i }}", items=arr, i="I")
            if r[0] == "ok":
                parts = r[1].split("@")
                one = parts[0]
                if not (len(parts) == 5 and parts[1] == "outer" and parts[2] == one and parts[3] == one * 3 and parts[4] == "outerI"):
                    out.append((f"{f}-leaves-the-render-context-unchanged", [arr, key], [one, "outer", one, one * 3, "outerI"], parts))
        # an argument that is a template string (not a plain path) is evaluated at every application: the same filter
        # node applied once per loop iteration sees each item's value
        r = render("{% for it in items %}{{ 'p' | append: '${it." + key + "}!' }},{% endfor %}", items=arr)
        if r[0] == "ok":
            want = "".join("p" + _lq(_get(it, key)) + "!," for it in arr)
            if r[1] != want:
                out.append(("template-string-argument-is-evaluated-at-every-application", [arr, key], want, r[1]))
        # keyed sort is an ordered permutation
        for name in ("sort", "sort_natural", "sort_numeric"):
            sk = call(name, arr, key)
            if sk[0] == "ok":
                if not is_perm(sk[1], arr):
                    out.append((f"{name}-key-is-permutation", [arr, key], "permutation", sk[1]))
                ks = [_get(x, key) for x in sk[1] if isinstance(_get(x, key), int) and not isinstance(_get(x, key), bool)]
                if name != "sort_natural" and ks != sorted(ks):
                    out.append((f"{name}-key-ordered", [arr, key], sorted(ks), ks))
                missing_seen = False
                for x in sk[1]:
                    if key not in x:
                        missing_seen = True
                    elif missing_seen and x.get(key) is not None and name == "sort":
                        out.append((f"{name}-missing-keys-last", [arr, key], "items without the key at the end", sk[1]))
                        break
            elif sk[0] == "foreign":
                out.append((f"{name}-key-foreign", [arr, key], "value or LiquidError", sk[1]))
            else:
                # items that lack the key go last: that cannot be a reason to fail when the values that ARE there
                # have a common order (all integers, or all strings)
                present = [x[key] for x in arr if isinstance(x, dict) and key in x]
                if name == "sort" and present and (all(isinstance(v, int) and not isinstance(v, bool) for v in present) or all(isinstance(v, str) for v in present)):
                    out.append((f"{name}-key-fails-although-the-present-values-are-ordered", [arr, key], "sorted, items without the key last", sk))
        uk = call("uniq", arr, key)
        if uk[0] == "ok":
            want_u, seen = [], []
            for x in arr:
                kv = x.get(key, "<missing>")
                if not any(_liquid_eq(kv, s) for s in seen):
                    seen.append(kv)
                    want_u.append(x)
            if not same(uk[1], want_u):
                out.append(("uniq-key-keeps-first-occurrences", [arr, key], want_u, uk[1]))


# ------------------------------------------------------------------ string laws


def string_laws(s: str, out: V) -> None:
    def expect(law: str, got: tuple[str, Any], want: Any, *args: Any) -> None:
        if got[0] == "foreign":
            out.append((law + "-foreign", [s, *args], want, got[1]))
        elif got[0] == "ok" and got[1] != want:
            out.append((law, [s, *args], want, got[1]))
        elif got[0] == "liquid":
            out.append((law + "-raises", [s, *args], want, got[1]))

    expect("upcase-by-definition", call("upcase", s), s.upper())
    expect("downcase-by-definition", call("downcase", s), s.lower())
    expect("strip-by-definition", call("strip", s), s.strip())
    expect("lstrip-by-definition", call("lstrip", s), s.lstrip())
    expect("rstrip-by-definition", call("rstrip", s), s.rstrip())
    expect("size-by-definition", call("size", s), len(s))
    for arg in ("", "a", ",", "é", " ", "aB"):
        expect("append-by-definition", call("append", s, arg), s + arg, arg)
        expect("prepend-by-definition", call("prepend", s, arg), arg + s, arg)
        if arg:
            expect("remove-by-definition", call("remove", s, arg), s.replace(arg, ""), arg)
            expect("remove_first-by-definition", call("remove_first", s, arg), s.replace(arg, "", 1), arg)
            i = s.rfind(arg)
            expect("remove_last-by-definition", call("remove_last", s, arg), s if i < 0 else s[:i] + s[i + len(arg) :], arg)
            for sub in ("", "X", arg + arg):
                expect("replace-by-definition", call("replace", s, arg, sub), s.replace(arg, sub), arg, sub)
                expect("replace_first-by-definition", call("replace_first", s, arg, sub), s.replace(arg, sub, 1), arg, sub)
                expect("replace_last-by-definition", call("replace_last", s, arg, sub), s if i < 0 else s[:i] + sub + s[i + len(arg) :], arg, sub)
            # split / join inverse
            sp = call("split", s, arg)
            if sp[0] == "ok":
                jn = call("join", sp[1], arg)
                # documented: an input equal to the separator (or empty) splits to the empty list
                want = "" if s == arg else s
                # python's split drops nothing; liquid's reference drops trailing empty strings: accept both
                if jn[0] == "ok" and jn[1] != want and jn[1] != want.rstrip(arg) and not (arg and want.endswith(arg) and jn[1] == want[: -len(arg)]):
                    out.append(("join-inverts-split", [s, arg], want, jn[1]))
            elif sp[0] == "foreign":
                out.append(("split-foreign", [s, arg], "list", sp[1]))
    # truncate: definition with the boundary len == n left open
    for n in (0, 1, 2, 3, 5, 50):
        for end in ("...", "", "é"):
            t = call("truncate", s, n, end)
            if t[0] == "foreign":
                out.append(("truncate-foreign", [s, n, end], "string", t[1]))
            elif t[0] == "ok":
                cut = s[: max(n - len(end), 0)] + end
                ok = (t[1] == s) if len(s) < n else (t[1] == cut) if len(s) > n else (t[1] in (s, cut))
                if not ok:
                    out.append(("truncate-by-definition", [s, n, end], s if len(s) < n else cut, t[1]))
    words = s.split()
    for n in (1, 2, 3, 15):
        for end in ("...", ""):
            t = call("truncatewords", s, n, end)
            if t[0] == "foreign":
                out.append(("truncatewords-foreign", [s, n, end], "string", t[1]))
            elif t[0] == "ok":
                if len(words) < n:
                    ok = t[1] in (s, " ".join(words))
                elif len(words) > n:
                    ok = t[1] == " ".join(words[:n]) + end
                else:
                    ok = t[1] in (s, " ".join(words), " ".join(words) + end)
                if not ok:
                    out.append(("truncatewords-by-definition", [s, n, end], " ".join(words[:n]) + (end if len(words) > n else ""), t[1]))
    # url encode / decode
    ue = call("url_encode", s)
    if ue[0] == "ok":
        if ue[1] != urllib.parse.quote_plus(s):
            out.append(("url_encode-by-definition", [s], urllib.parse.quote_plus(s), ue[1]))
        ud = call("url_decode", ue[1])
        if ud[0] != "ok" or ud[1] != s:
            out.append(("url_decode-inverts-url_encode", [s], s, ud))
    else:
        out.append(("url_encode-raises", [s], "string", ue))
    # base64 (both alphabets)
    for enc, dec, ref in (("base64_encode", "base64_decode", base64.b64encode), ("base64_url_safe_encode", "base64_url_safe_decode", base64.urlsafe_b64encode)):
        be = call(enc, s)
        if be[0] == "ok":
            if be[1] != ref(s.encode()).decode():
                out.append((f"{enc}-by-definition", [s], ref(s.encode()).decode(), be[1]))
            bd = call(dec, be[1])
            if bd[0] != "ok" or bd[1] != s:
                out.append((f"{dec}-inverts-{enc}", [s], s, bd))
        else:
            out.append((f"{enc}-raises", [s], "string", be))
    # escape / escape_once
    for text in (s, "<" + s + ">&amp;&", "&lt;" + s + "\"'"):
        e1 = call("escape", text)
        if e1[0] == "ok":
            if e1[1] != html.escape(text):
                out.append(("escape-by-definition", [text], html.escape(text), e1[1]))
            eo = call("escape_once", text)
            if eo[0] == "ok":
                eoo = call("escape_once", eo[1])
                if eoo[0] != "ok" or eoo[1] != eo[1]:
                    out.append(("escape_once-idempotent", [text], eo[1], eoo))
                eoe = call("escape_once", e1[1])
                if eoe[0] != "ok" or eoe[1] != e1[1]:
                    out.append(("escape_once-after-escape-is-escape", [text], e1[1], eoe))
            else:
                out.append(("escape_once-raises", [text], "string", eo))
        # the same laws as a TEMPLATE sees them when the environment escapes its output: what one application prints,
        # two applications print, and it is what the filter prints in an environment that does not escape
        for base in (text, "&amp;lt;" + text):
            r0 = render("{{ s | escape_once }}", s=base)
            r1 = render("{{ s | escape_once }}", "auto_escape", s=base)
            r2 = render("{{ s | escape_once | escape_once }}", "auto_escape", s=base)
            if r1[0] == "ok" and r2 != r1:
                out.append(("escape_once-idempotent-under-auto_escape", [base], r1, r2))
            if r0[0] == "ok" and r1[0] == "ok" and html.unescape(r0[1]) != html.unescape(r1[1]):
                out.append(("escape_once-denotes-the-same-text-under-auto_escape", [base], r0, r1))
    # slice on strings
    for start, length in ((0, 1), (1, 2), (-2, 2), (-1, 5), (9, 1)):
        sl = call("slice", s, start, length)
        end = start + length
        want = s[start : (None if start < 0 <= end else end)]
        if sl[0] == "ok" and sl[1] != want:
            out.append(("slice-string-by-definition", [s, start, length], want, sl[1]))
        elif sl[0] == "foreign":
            out.append(("slice-foreign", [s, start, length], want, sl[1]))
    # capitalize: first character upper-cased, rest lower-cased
    cp = call("capitalize", s)
    if cp[0] == "ok" and cp[1] != s.capitalize():
        out.append(("capitalize-by-definition", [s], s.capitalize(), cp[1]))


# ------------------------------------------------------------------ arithmetic laws


def numbers() -> list[Any]:
    nums: list[Any] = list(INTS) + list(FLOATS)
    nums += [str(x) for x in INTS[:9]] + ["1.5", "-2.5", "0.1"]
    return nums


def _num(x: Any) -> Any:
    if isinstance(x, str):
        try:
            return int(x)
        except ValueError:
            return float(x)
    return x


def _dec(x: Any) -> Decimal:
    return Decimal(str(x)) if isinstance(x, float) else Decimal(x)


def arithmetic_laws(a: Any, b: Any, out: V) -> None:
    x, y = _num(a), _num(b)
    both_int = isinstance(x, int) and isinstance(y, int)

    def expect(law: str, got: tuple[str, Any], want: Any) -> None:
        if got[0] == "foreign":
            out.append((law + "-foreign", [a, b], want, got[1]))
        elif got[0] == "ok":
            g = got[1]
            if isinstance(want, float) and isinstance(g, (int, float)) and not isinstance(g, bool):
                if float(g) != want and not (math.isnan(want) and math.isnan(float(g))):
                    out.append((law, [a, b], want, g))
            elif g != want or type(g) is not type(want):
                out.append((law, [a, b], want, g))
        else:
            out.append((law + "-raises", [a, b], want, got[1]))

    if both_int:
        expect("plus-exact-integer", call("plus", a, b), x + y)
        expect("minus-exact-integer", call("minus", a, b), x - y)
        expect("times-exact-integer", call("times", a, b), x * y)
        p = call("plus", a, b)
        if p[0] == "ok":
            expect("minus-undoes-plus", call("minus", p[1], b), x)
        if y != 0:
            expect("divided_by-floors", call("divided_by", a, b), x // y)
            expect("modulo-integer", call("modulo", a, b), x % y)
            q, r = call("divided_by", a, b), call("modulo", a, b)
            if q[0] == "ok" and r[0] == "ok" and q[1] * y + r[1] != x:
                out.append(("divided_by-modulo-identity", [a, b], x, q[1] * y + r[1]))
        else:
            for f in ("divided_by", "modulo"):
                z = call(f, a, b)
                if z[0] != "liquid":
                    out.append((f"{f}-by-zero-is-LiquidError", [a, b], "LiquidError", z))
    else:
        expect("plus-exact-decimal", call("plus", a, b), float(_dec(x) + _dec(y)))
        expect("minus-exact-decimal", call("minus", a, b), float(_dec(x) - _dec(y)))
        expect("times-exact-decimal", call("times", a, b), float(_dec(x) * _dec(y)))
        if y != 0:
            expect("divided_by-float-division", call("divided_by", a, b), float(x) / float(y))
        else:
            z = call("divided_by", a, b)
            if z[0] != "liquid":
                out.append(("divided_by-zero-is-LiquidError", [a, b], "LiquidError", z))
    expect("at_least-is-max", call("at_least", a, b), max(x, y))
    expect("at_most-is-min", call("at_most", a, b), min(x, y))


def unary_laws(a: Any, out: V) -> None:
    x = _num(a)
    for name, want in (("abs", abs(x)), ("ceil", math.ceil(x)), ("floor", math.floor(x))):
        g = call(name, a)
        if g[0] == "foreign":
            out.append((f"{name}-foreign", [a], want, g[1]))
        elif g[0] == "ok" and (g[1] != want):
            out.append((f"{name}-by-definition", [a], want, g[1]))
        elif g[0] == "liquid":
            out.append((f"{name}-raises", [a], want, g[1]))
    r = call("round", a)
    if r[0] == "ok":
        d = _dec(x)
        lo, hi = math.floor(x), math.ceil(x)
        tie = (d - lo) == Decimal("0.5")
        if tie:
            ok = r[1] in (lo, hi)
        else:
            ok = r[1] == (lo if (d - lo) < Decimal("0.5") else hi)
        if not ok:
            out.append(("round-to-nearest", [a], "nearest integer", r[1]))
    else:
        out.append(("round-raises", [a], "number", r))
    for digits in (1, 2):
        r2 = call("round", a, digits)
        if r2[0] == "ok" and isinstance(x, float) and abs(x) < 1e10:
            if abs(Decimal(str(r2[1])) - _dec(x)) > Decimal(10) ** (-digits):
                out.append(("round-digits-within-one-unit", [a, digits], x, r2[1]))
        elif r2[0] == "foreign":
            out.append(("round-digits-foreign", [a, digits], "number", r2[1]))


# ------------------------------------------------------------------ harness interface

_SP: dict[str, Any] = {}


def _space(tier: str) -> list[tuple]:
    if _SP.get("tier") == tier:
        return _SP["cases"]
    cases: list[tuple] = []
    for a in arrays(4 if tier == "quick" else 5):
        cases.append(("arr", a))
    for s in strings(3 if tier == "quick" else 4):
        cases.append(("str", s))
    nums = numbers()
    for a in nums:
        cases.append(("un", a))
        for b in nums:
            cases.append(("bin", a, b))
    _SP.update(tier=tier, cases=cases)
    return cases


def plan(tier: str, seed: int):
    cases = _space(tier)
    n = len(cases)
    shards = [(tier, lo, hi) for lo, hi in chunks(n, max(16, min(400, n // 20)))]
    k: dict[str, int] = {}
    for c in cases:
        k[c[0]] = k.get(c[0], 0) + 1
    meta = {"space_size": n, "subspaces": {"arrays": k["arr"], "strings": k["str"], "numbers-unary": k["un"], "number-pairs": k["bin"]},
            "bounds": {"array_len": 4 if tier == "quick" else 5, "string_len": 3 if tier == "quick" else 4, "elements": len(ELEMS)}}
    return shards, meta


def _run(c: tuple) -> tuple[V, bool]:
    out: V = []
    hit = True
    if c[0] == "arr":
        hit = array_laws(list(c[1]), out)
    elif c[0] == "str":
        string_laws(c[1], out)
    elif c[0] == "un":
        unary_laws(c[1], out)
    else:
        arithmetic_laws(c[1], c[2], out)
    return out, hit


def run_shard(shard) -> ShardResult:
    tier, lo, hi = shard
    cases = _space(tier)
    res = ShardResult()
    for i in range(lo, hi):
        res.cases += 1
        res.evaluations += 1
        out, hit = _run(cases[i])
        if hit and len(cases[i]) > 1 and cases[i][1] not in ("", []):
            res.nontrivial.add(h64(repr(cases[i])))
        res.outcomes.add(h64([cases[i][0], len(out) == 0]))
        for law, args, want, got in out:
            res.violation(f"C19:{law}", {"tier": tier, "index": i, "law": law, "args": repr(args)}, repr(want)[:300], repr(got)[:300])
    if lo % 7 == 0:
        res.samples.append(repr(cases[lo])[:120])
    return res


def replay(case: dict[str, Any]) -> list[dict[str, Any]]:
    res = ShardResult()
    c = _space(case.get("tier", "quick"))[case["index"]]
    out, _ = _run(c)
    for law, args, want, got in out:
        res.violation(f"C19:{law}", case, repr(want)[:300], repr(got)[:300])
    return res.violations
