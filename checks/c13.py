"""C13 — file-system and package loaders never read outside their roots.

A sandbox of real files is built per run in a private temporary directory (removed at exit): two search
directories with files and sub-directories, files beside and above the roots, an `outside` directory, and a
temporary package on sys.path for PackageLoader. Every file's content is its own real path, so whatever a
loader returns says exactly which file was read.
Enumerated: every template name built from <= L segments of a path alphabet ('a', 'sub', 'a.html', '..', '.',
'', 'outside', 's2', unicode, '~', '%2e%2e', '..\\\\') joined by '/', optionally prefixed by '/', by the absolute
path of the outside directory or of the search directory itself, optionally suffixed by '/'; x loader kinds
(FileSystemLoader with one / two / relative search paths and default extension, CachingFileSystemLoader,
PackageLoader, ChoiceLoader and CachingChoiceLoader over them) x sync / async x entry (get_template, include by
variable, include / render / extends by literal).
Oracle: anything returned is the content of a file whose real path lies under a configured search directory;
every name that is absolute or has a '..' segment fails with TemplateNotFoundError.
"""

from __future__ import annotations

import itertools
import os
import sys
from typing import Any

from liquid2 import CachingChoiceLoader
from liquid2 import CachingFileSystemLoader
from liquid2 import ChoiceLoader
from liquid2 import Environment
from liquid2 import FileSystemLoader
from liquid2 import PackageLoader
from liquid2.exceptions import LiquidError
from liquid2.exceptions import TemplateNotFoundError

from mc import seams
from mc.harness import ShardResult
from mc.harness import chunks
from mc.harness import h64
from mc.vloop import run_solo

ID = "C13"
LEVEL = "exploration"
ENGINES = ["E1 spaces", "file-system sandbox"]
RULE = (
    "every name of <= L segments over the path alphabet x prefixes x suffixes x loader kinds x sync/async x entry; "
    "non-trivial when the name is absolute, contains a '..' segment, or the load returned a file (so the inside-root "
    "oracle was exercised on real content); distinct by (loader, entry, name)"
)
LEVEL_TEXT = (
    "Bounded-exhaustive exploration of the path grammar against real loaders over a real directory tree; the oracle "
    "reads which file was served from the served content itself."
)
LEVEL_NOTE = (
    "Symlinks are not generated (the statement does not say which side of a link 'located inside' refers to); POSIX "
    "path semantics only; names longer than the bound and other character classes are not covered."
)
TECHNIQUE = "bounded-exhaustive enumeration of template names over a path grammar x loader kinds against a containment oracle on a real file sandbox + exhaustive enumeration of load / shadow / rewrite histories with every escaping name probed after each"
ASSUMPTIONS = ["POSIX file system", "file content identifies the file"]

SEGMENTS = ["a", "sub", "a.html", "..", ".", "", "outside", "s2", "é.html", "~", "%2e%2e", "..\\", "b",
            "\u2025", "\uff0e\uff0e"]  # (compatibility characters that normalise to '..')

_W: dict[str, Any] = {}


def world() -> dict[str, Any]:
    """Build the sandbox once per process."""
    pid = os.getpid()
    if _W.get("pid") == pid:
        return _W
    root = os.path.realpath(seams.sandbox("verif_c13_"))
    files = [
        "s1/a.html", "s1/a", "s1/b.html", "s1/sub/a.html", "s1/sub/a", "s1/é.html", "s1/sub/sub/a.html", "s1/outside/a.html",
        "s2/a.html", "s2/b.html", "s2/sub/b.html", "s2/only2.html",
        "outside/a.html", "outside/a", "outside/secret.html", "outside/sub/a.html",
        "a.html", "a", "b.html", "secret.html",
        "pkg_c13/__init__.py", "pkg_c13/templates/a.liquid", "pkg_c13/templates/a.html", "pkg_c13/templates/sub/a.liquid",
        "pkg_c13/templates/b.liquid", "pkg_c13/secret.liquid", "pkg_c13/a.liquid", "pkg_c13/other/a.liquid", "pkg_c13/a.html",
    ]  # fmt: skip
    tree = {}
    for f in files:
        tree[f] = "" if f.endswith("__init__.py") else os.path.join(root, f)
    seams.write_tree(root, tree)
    if root not in sys.path:
        sys.path.insert(0, root)
    import importlib

    importlib.invalidate_caches()
    s1, s2, outside = (os.path.join(root, d) for d in ("s1", "s2", "outside"))
    pk = os.path.join(root, "pkg_c13", "templates")
    rel_s1 = os.path.relpath(s1, os.getcwd())
    loaders = {
        "fs-1": (lambda: FileSystemLoader(s1), [s1]),
        "fs-2": (lambda: FileSystemLoader([s1, s2]), [s1, s2]),
        "fs-rel": (lambda: FileSystemLoader(rel_s1), [s1]),
        "fs-ext": (lambda: FileSystemLoader(s1, ext=".html"), [s1]),
        "caching-fs": (lambda: CachingFileSystemLoader([s1, s2], ext=".html"), [s1, s2]),
        "package": (lambda: PackageLoader("pkg_c13"), [pk]),
        "package-paths": (lambda: PackageLoader("pkg_c13", package_path=["templates", "other"]), [pk, os.path.join(root, "pkg_c13", "other")]),
        "choice": (lambda: ChoiceLoader([FileSystemLoader(s1), PackageLoader("pkg_c13")]), [s1, pk]),
        "caching-choice": (lambda: CachingChoiceLoader([FileSystemLoader(s2), FileSystemLoader(s1, ext=".html")]), [s1, s2]),
        # two choice loaders whose roots are disjoint (two tenants)
        "choice-s1": (lambda: ChoiceLoader([FileSystemLoader(s1)]), [s1]),
        "choice-s2": (lambda: ChoiceLoader([FileSystemLoader(s2), PackageLoader("pkg_c13", package_path="other")]), [s2, os.path.join(root, "pkg_c13", "other")]),
    }
    _W.update(pid=pid, root=root, s1=s1, s2=s2, outside=outside, loaders=loaders, envs={})
    return _W


def prefixes(w: dict[str, Any]) -> list[str]:
    # (the last one spells the absolute path of the outside directory with FULLWIDTH SOLIDUS instead of '/')
    return ["", "/", w["outside"] + "/", w["s1"] + "/", w["root"] + "/", w["outside"].replace("/", "\uff0f") + "\uff0f"]


# names the file system itself refuses (a component longer than NAME_MAX, a path longer than PATH_MAX, a NUL byte)
EXTRA_NAMES = ["x" * 300, "sub/" + "x" * 300, "x" * 5000, "a/" * 2500 + "a", "a\x00b", "sub/a\x00.html", "x" * 300 + "/../a.html"]


def names_of_len(L: int, w: dict[str, Any]) -> list[str]:
    out = list(EXTRA_NAMES) if L == 1 else []
    for segs in itertools.product(SEGMENTS, repeat=L):
        body = "/".join(segs)
        for pre in prefixes(w):
            for suf in ("", "/"):
                out.append(pre + body + suf)
    return out


def must_fail(name: str) -> bool:
    return name.startswith("/") or ".." in name.split("/")


def inside(content: str, roots: list[str]) -> bool:
    real = os.path.realpath(content)
    return any(real == r or real.startswith(os.path.realpath(r) + os.sep) for r in roots)


ENTRIES = ("get", "get-async", "include-var", "include-var-async", "include-lit", "render-lit", "extends-lit")


def load(w: dict[str, Any], lname: str, entry: str, name: str) -> tuple[str, Any]:
    mk, _roots = w["loaders"][lname]
    env = Environment(loader=mk())
    try:
        if entry == "get":
            return ("ok", env.get_template(name).render())
        if entry == "get-async":
            return _async(_get(env, name))
        if entry == "include-var":
            return ("ok", env.from_string("{% include n %}").render(n=name))
        if entry == "include-var-async":
            return _async(env.from_string("{% include n %}").render_async(n=name))
        q = '"' if "'" in name else "'"
        if q in name or "\\" in name or "${" in name:
            return ("skip", None)
        tag = {"include-lit": "include", "render-lit": "render", "extends-lit": "extends"}[entry]
        return ("ok", env.from_string("{% " + tag + " " + q + name + q + " %}").render())
    except TemplateNotFoundError:
        return ("notfound", None)
    except LiquidError as e:
        return ("liquid", type(e).__name__)
    except Exception as e:  # noqa: BLE001
        return ("foreign", type(e).__name__)


async def _get(env: Any, name: str) -> str:
    t = await env.get_template_async(name)
    return await t.render_async()


def _async(coro: Any) -> tuple[str, Any]:
    kind, val = run_solo(coro)
    if kind == "ok":
        return ("ok", val)
    if isinstance(val, TemplateNotFoundError):
        return ("notfound", None)
    if isinstance(val, LiquidError):
        return ("liquid", type(val).__name__)
    return ("foreign", type(val).__name__)


def check_one(w: dict[str, Any], lname: str, entry: str, name: str, res: ShardResult | None) -> list[tuple[str, Any, Any]]:
    out: list[tuple[str, Any, Any]] = []
    got = load(w, lname, entry, name)
    if got[0] == "skip":
        return out
    roots = w["loaders"][lname][1]
    if res is not None:
        res.evaluations += 1
        res.outcomes.add(h64([got[0], lname]))
        if got[0] == "foreign":
            res.count("foreign:" + str(got[1]))
    mf = must_fail(name)
    if got[0] == "ok":
        content = got[1]
        if not inside(content, roots):
            out.append((f"C13:served-file-outside-roots:{_nameclass(name, w)}", {"roots": "<configured search dirs>"}, {"served": _rel(content, w)}))
        elif mf:
            out.append((f"C13:absolute-or-parent-name-served:{_nameclass(name, w)}", "TemplateNotFoundError", {"served": _rel(content, w)}))
        if res is not None:
            res.nontrivial.add(h64([lname, entry, name]))
    elif mf:
        if res is not None:
            res.nontrivial.add(h64([lname, entry, name]))
        if got[0] != "notfound":
            out.append((f"C13:absolute-or-parent-name-not-TemplateNotFound:{got[0]}:{got[1]}", "TemplateNotFoundError", list(got)))
    return out


# ---- histories: what a loader serves must not depend on what was asked before, of it or of another loader

HIST_ENTRIES = ("get", "get-async", "include-var-async")


def load_with(env: Any, entry: str, name: str) -> tuple[str, Any]:
    try:
        if entry == "get":
            return ("ok", env.get_template(name).render())
        if entry == "get-async":
            return _async(_get(env, name))
        return _async(env.from_string("{% include n %}").render_async(n=name))
    except TemplateNotFoundError:
        return ("notfound", None)
    except LiquidError as e:
        return ("liquid", type(e).__name__)
    except Exception as e:  # noqa: BLE001
        return ("foreign", type(e).__name__)


def check_history(w: dict[str, Any], first: str, second: str, entry: str, name: str, res: ShardResult | None) -> list[tuple[str, Any, Any]]:
    """Ask loader `first` for `name` (twice, sync then the given entry), then loader `second` (a different INSTANCE; the
    same kind when first == second) for the same name. Every answer is checked against the roots of the loader asked,
    and the second loader's answer must equal what a loader that was never used before answers."""
    out: list[tuple[str, Any, Any]] = []
    env1 = Environment(loader=w["loaders"][first][0]())
    fresh = load(w, second, entry, name)
    steps = [(first, env1, "get"), (first, env1, entry)]
    env2 = env1 if first == second else Environment(loader=w["loaders"][second][0]())
    steps.append((second, env2, entry))
    for i, (lname, env, ent) in enumerate(steps):
        got = load_with(env, ent, name)
        roots = w["loaders"][lname][1]
        if res is not None:
            res.evaluations += 1
            res.outcomes.add(h64([got[0], lname, i]))
        if got[0] == "ok" and not inside(got[1], roots):
            out.append((f"C13:served-file-outside-roots:after-history:{_nameclass(name, w)}", {"roots": "<configured search dirs>", "step": i}, {"served": _rel(got[1], w)}))
        elif got[0] == "ok" and must_fail(name):
            out.append((f"C13:absolute-or-parent-name-served:after-history:{_nameclass(name, w)}", "TemplateNotFoundError", {"served": _rel(got[1], w), "step": i}))
        elif must_fail(name) and got[0] != "notfound":
            out.append((f"C13:absolute-or-parent-name-not-TemplateNotFound:after-history:{got[0]}", "TemplateNotFoundError", list(got)))
    if got[0] != fresh[0] or (got[0] == "ok" and got[1] != fresh[1]):
        out.append((f"C13:answer-depends-on-history:{_nameclass(name, w)}", {"never_used_loader": [fresh[0], _rel(str(fresh[1]), w)]}, {"after_history": [got[0], _rel(str(got[1]), w)]}))
    if res is not None and (got[0] == "ok" or must_fail(name)):
        res.nontrivial.add(h64([first, second, entry, name]))
    return out


# ------------------------------------------------------------------ histories that change the files between loads

FH_OPS = ("load", "load-async", "shadow", "unshadow", "touch")
FH_LOADERS = ("caching-fs2", "fs2", "caching-choice2")


def fh_histories(tier: str) -> list[tuple[str, ...]]:
    depth = 4 if tier == "quick" else 5
    out: list[tuple[str, ...]] = []
    for n_ in range(1, depth + 1):
        out += [h for h in itertools.product(FH_OPS, repeat=n_) if any(o.startswith("load") for o in h)]
    return out


def check_file_history(lkind: str, hist: tuple[str, ...], res: ShardResult | None) -> list[tuple[str, Any, Any]]:
    """A loader over two search directories; the history loads one good name, puts a file of that name into the EARLIER
    directory (so that the cached template is shadowed and reloaded), removes it, rewrites the original; after the
    history every escaping name is asked for, each on a fresh replay of the history, sync and async."""
    import shutil
    import time as _time

    base = seams.sandbox("verif_c13h_")
    out: list[tuple[str, Any, Any]] = []
    try:
        p1, p2, outside = (os.path.join(base, d) for d in ("p1", "p2", "outside"))
        secret = os.path.join(outside, "secret.html")
        probes = [secret, "../outside/secret.html", "sub/../../outside/secret.html", "/" + secret.lstrip("/"), "./../outside/secret.html"]
        for pi, probe in enumerate(probes):
            for entry in ("get", "get-async"):
                for d in (p1, p2, outside):
                    shutil.rmtree(d, ignore_errors=True)
                seams.write_tree(base, {"p2/n.html": os.path.join(p2, "n.html") + " v1", "outside/secret.html": secret, "p1/keep.html": "k", "p2/sub/x.html": "x"})
                if lkind == "caching-fs2":
                    loader: Any = CachingFileSystemLoader([p1, p2], auto_reload=True)
                elif lkind == "fs2":
                    loader = FileSystemLoader([p1, p2])
                else:
                    loader = CachingChoiceLoader([FileSystemLoader(p1), FileSystemLoader(p2)], auto_reload=True)
                env = Environment(loader=loader)
                ver = 1
                for op in hist:
                    if op in ("load", "load-async"):
                        got = load_with(env, "get" if op == "load" else "get-async", "n.html")
                        if res is not None:
                            res.evaluations += 1
                        if got[0] == "ok" and not inside(got[1].rsplit(" v", 1)[0], [p1, p2]):
                            out.append(("C13:served-file-outside-roots:file-history", {"history": list(hist)}, {"served": got[1]}))
                    elif op == "shadow":
                        seams.write_tree(base, {"p1/n.html": os.path.join(p1, "n.html") + " v1"})
                    elif op == "unshadow":
                        if os.path.exists(os.path.join(p1, "n.html")):
                            os.unlink(os.path.join(p1, "n.html"))
                    else:
                        ver += 1
                        seams.write_tree(base, {"p2/n.html": os.path.join(p2, "n.html") + f" v{ver}"})
                        t_ = _time.time() + ver * 10
                        os.utime(os.path.join(p2, "n.html"), (t_, t_))
                got = load_with(env, entry, probe)
                if res is not None:
                    res.evaluations += 1
                    res.outcomes.add(h64([got[0], pi]))
                if got[0] == "ok":
                    out.append((f"C13:absolute-or-parent-name-served:file-history:{entry}", "TemplateNotFoundError", {"probe": pi, "served": got[1].replace(base, "<sandbox>")}))
                elif got[0] != "notfound":
                    out.append((f"C13:absolute-or-parent-name-not-TemplateNotFound:file-history:{got[0]}", "TemplateNotFoundError", list(got)))
    finally:
        shutil.rmtree(base, ignore_errors=True)
    if res is not None:
        res.nontrivial.add(h64([lkind, list(hist)]))
    return out


def _rel(path: str, w: dict[str, Any]) -> str:
    return path.replace(w["root"], "<sandbox>").replace(w["root"].replace("/", "\uff0f"), "<sandbox>".replace("/", "\uff0f"))


def _nameclass(name: str, w: dict[str, Any]) -> str:
    if name.startswith(w["root"]):
        return "absolute-path"
    if name.startswith("/"):
        return "leading-slash"
    if ".." in name.split("/"):
        return "parent-segment"
    return "relative"


def plan(tier: str, seed: int):
    w = world()
    L = 3 if tier == "quick" else 4
    shards: list[Any] = []
    total = 0
    subs = {}
    lnames = sorted(w["loaders"])
    for ln in range(1, L + 1):
        n = len(names_of_len(ln, w)) if ln <= 2 else len(SEGMENTS) ** ln * len(prefixes(w)) * 2
        subs[f"names-len{ln}"] = n
        entries = ENTRIES if ln <= 2 else ENTRIES[:2] if ln == 3 or tier == "thorough" else ENTRIES[:1]
        for lname in lnames:
            for entry in entries:
                for lo, hi in chunks(n, max(1, n // 3000)):
                    shards.append((tier, ln, lname, entry, lo, hi))
                total += n
    # histories over names of one segment (and two for the same-instance histories)
    n1 = len(names_of_len(1, w))
    n2 = len(names_of_len(2, w))
    for first in lnames:
        for second in lnames:
            for entry in HIST_ENTRIES:
                n = n2 if first == second else n1
                if first != second and not ({first, second} & {"choice", "caching-choice", "choice-s1", "choice-s2", "caching-fs"}):
                    continue  # (pairs of plain loaders of different kinds share no code path that could keep state: sampled by the choice/caching pairs)
                shards.append((tier, "H", (first, second), entry, 0, n))
                total += n
    subs["histories"] = sum(sh[5] for sh in shards if sh[1] == "H")
    fh = fh_histories(tier)
    for lk in FH_LOADERS:
        for lo, hi in chunks(len(fh), 24):
            shards.append((tier, "FH", lk, "", lo, hi))
        total += len(fh)
    subs["file-histories"] = len(fh) * len(FH_LOADERS)
    meta = {
        "space_size": total,
        "subspaces": subs,
        "bounds": {"max_segments": L, "segment_alphabet": len(SEGMENTS), "loaders": lnames, "entries": list(ENTRIES)},
    }
    return shards, meta


_NAMES: dict[int, list[str]] = {}


def run_shard(shard) -> ShardResult:
    tier, ln, lname, entry, lo, hi = shard
    w = world()
    if ln == "FH":
        res = ShardResult()
        for hist in fh_histories(tier)[lo:hi]:
            res.cases += 1
            for sig, exp, obs in check_file_history(lname, hist, res):
                res.violation(sig, {"file_history": list(hist), "loader": lname, "tier": tier}, exp, obs)
        return res
    if ln == "H":
        first, second = lname
        L = 2 if first == second else 1
        if L not in _NAMES:
            _NAMES[L] = names_of_len(L, w)
        res = ShardResult()
        for i in range(lo, hi):
            name = _NAMES[L][i]
            res.cases += 1
            for sig, exp, obs in check_history(w, first, second, entry, name, res):
                res.violation(sig, {"history": [first, second], "entry": entry, "name": _rel(name, w)}, exp, obs)
        return res
    if ln not in _NAMES:
        _NAMES[ln] = names_of_len(ln, w)
    names = _NAMES[ln]
    res = ShardResult()
    for i in range(lo, hi):
        name = names[i]
        res.cases += 1
        for sig, exp, obs in check_one(w, lname, entry, name, res):
            # the sandbox path differs per run: store the name relative to the sandbox
            res.violation(sig, {"loader": lname, "entry": entry, "name": _rel(name, w)}, exp, obs, repro=_repro(lname, entry, _rel(name, w)))
    if lo == 0:
        res.samples.append({"loader": lname, "entry": entry, "names": [_rel(n, w) for n in names[7:60:9]]})
    return res


def _repro(lname: str, entry: str, name: str) -> str:
    return (
        "# stand-alone reproduction (C13): the sandbox is rebuilt, <sandbox> is its root\n"
        "import sys; sys.path.insert(0, '/verif')\nfrom checks import c13\n"
        f"w = c13.world(); name = {name!r}.replace('<sandbox>', w['root'])\n"
        f"print(c13.load(w, {lname!r}, {entry!r}, name)); print(c13.check_one(w, {lname!r}, {entry!r}, name, None))\n"
    )


def replay(case: dict[str, Any]) -> list[dict[str, Any]]:
    if "file_history" in case:
        res = ShardResult()
        for sig, exp, obs in check_file_history(case["loader"], tuple(case["file_history"]), None):
            res.violation(sig, case, exp, obs)
        return res.violations
    w = world()
    res = ShardResult()
    name = case["name"].replace("<sandbox>", w["root"])
    # (the fullwidth spelling of the sandbox path is rebuilt too)
    name = name.replace("<sandbox>".replace("/", "\uff0f"), w["root"].replace("/", "\uff0f"))
    if "history" in case:
        for sig, exp, obs in check_history(w, case["history"][0], case["history"][1], case["entry"], name, None):
            res.violation(sig, case, exp, obs)
        return res.violations
    for sig, exp, obs in check_one(w, case["loader"], case["entry"], name, None):
        res.violation(sig, case, exp, obs)
    return res.violations
