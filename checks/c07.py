"""C07 — render/macro scopes are isolated and block scopes do not leak.

Non-interference, no expected values:
 (i)  the output region of a `render`ed partial / `call`ed macro is identical under every caller context
      (wrappers that assign, capture, count, loop-bind, with-bind, cycle, set loop offsets, define macros
      over the same pool of names), for every partial body over that pool and every data set;
 (ii) the caller's suffix probe (all pool names, counters, cycles, offset: continue, macro call) is identical
      for every partial body (baseline: the empty body);
 (iii) after every block construct that binds a pool name (for, tablerow, with, include/render arguments and
      bound variable, macro parameters, lambda parameters of every lambda-taking filter, translate arguments)
      left normally, by break or by continue, the name renders exactly as before the construct; after an error
      raised at every data access inside the block (E5, single deviation) the same RenderContext object has the
      scope depth, loop stack and template it had before and a probe rendered with it sees the outer value;
 (iv) `include` anywhere inside a rendered partial or macro body raises DisabledTagError.
"""

from __future__ import annotations

import io
import itertools
from typing import Any

from liquid2 import RenderContext
from liquid2.exceptions import DisabledTagError
from liquid2.exceptions import LiquidError

from mc import impl
from mc.harness import ShardResult
from mc.harness import h64

ID = "C07"
LEVEL = "exploration"
ENGINES = ["E1 spaces", "E5 fault deviations"]
RULE = (
    "(i)/(ii) caller wrappers (<=2 nested/sequenced) x partial/macro bodies (<=2 statements) over a shared name pool x "
    "argument lists x data; (iii) binding constructs x exit modes x outer binding kinds x every fault position; (iv) "
    "include placements. Non-trivial: the caller context really binds a name that the body reads or the body really "
    "writes a name that the suffix reads (both sides touch the same pool name); distinct by (wrapper, body, args, data)"
)
LEVEL_TEXT = (
    "Bounded-exhaustive non-interference exploration on the real renderer: caller contexts and partial/macro bodies "
    "are enumerated over one shared pool of names so that every shadowing/capture pattern occurs; outputs are compared "
    "with each other (partial region across callers, caller suffix across bodies, probe before/after a block), so no "
    "expected values and no model are needed. Error exits are explored as single fault deviations at every data access."
)
LEVEL_NOTE = (
    "Bodies are <= 2 statements, wrappers <= 2 deep; generator finalisation of abandoned lambda maps relies on CPython "
    "reference counting (the interpreter that runs here)."
)
TECHNIQUE = "bounded-exhaustive enumeration of caller-context x partial-body pairs with a non-interference (differential) oracle + single-fault deviations at every data access"
ASSUMPTIONS = ["CPython reference counting finalises abandoned generators immediately"]

OPEN, CLOSE = "⟦", "⟧"  # delimit the partial's output region
SUF_O, SUF_C = "⦃", "⦄"  # delimit the caller's suffix probe

# ---- caller wrappers: @@ is where the render/call statement goes
WRAPPERS = [
    "@@",
    "{% assign a = 'A1' %}@@",
    "{% assign b = 'B1' %}{% assign a = b %}@@",
    "{% capture a %}capA{% endcapture %}@@",
    "{% capture b %}capB{% endcapture %}@@",
    "{% increment a %}{% increment a %}@@",
    "{% increment c %}@@",
    "{% decrement c %}{% decrement b %}@@",
    "{% for a in (7..8) %}@@{% endfor %}",
    "{% for i in arr %}{% assign b = i %}@@{% endfor %}",
    "{% for i in arr limit: 1 %}{% endfor %}@@",
    "{% with a: 'WA', b: 'WB' %}@@{% endwith %}",
    "{% cycle 1, 2 %}{% cycle 'grp': 1, 2 %}@@",
    "{% macro m x %}callerM{{ x }}{% endmacro %}@@",
    "{% if true %}{% assign a = 'inIf' %}@@{% endif %}",
    "{% liquid\n assign a = 'L'\n increment c\n%}@@",
    "{% capture b %}@@{% endcapture %}{{ b }}",
    # the caller uses a context-aware filter (a lambda that reads a free name) before the partial does
    "{% assign a = 'LA' %}{{ arr | map: q => a | join: ',' }}{{ arr | where: q => a == 'LA' | size }}@@",
]

# ---- bodies of the partial / macro (over the same pool)
BODY_STMTS = [
    "",
    "{{ a }}",
    "{{ b }}",
    "{{ c }}",
    "{{ i }}",
    "{{ g }}",
    "{{ x }}",
    "{{ forloop.index }}",
    "{% assign a = 'pa' %}{{ a }}",
    "{% assign b = 'pb' %}",
    "{% capture a %}pcap{% endcapture %}",
    "{% increment a %}",
    "{% increment c %}",
    "{% decrement c %}",
    "{% cycle 1, 2 %}",
    "{% cycle 'grp': 1, 2 %}",
    "{% for i in arr offset: continue %}{{ i }}{% endfor %}",
    "{% for a in arr %}{{ a }}{% endfor %}",
    "{% for q in (1..2) %}{{ forloop.parentloop.index }}{{ forloop.parentloop.length }}{{ forloop.parentloop.name }}{% endfor %}",
    "{{ arr | map: q => a | join: ',' }}{{ arr | where: q => a == 'LA' | size }}",
    "{% assign a = 'pa2' %}{{ arr | map: q => a | join: ',' }}",
    "{% call m 'z' %}",
    "{% macro m x %}partialM{% endmacro %}",
    "{% render 'inner' %}",
    "{% render 'inner', a: 'argA' %}",
    "{% with a: 'pw' %}{{ a }}{% endwith %}",
    "{% assign g = 'shadowG' %}{{ g }}",
]

# argument values are literals or global data only: a caller variable used as an argument would legitimately
# make the partial's input depend on the caller
ARGS = ["", ", a: 'argA'", ", x: g", " with g as x", " for arr as a"]
MACRO_ARGS = ["", " 'posX'", " x: g", " 'posX', a: 'kwA'"]

SUFFIX = (
    SUF_O + "{{ a }}|{{ b }}|{{ c }}|{{ g }}|{{ x }}|{% cycle 1, 2 %}|{% cycle 'grp': 1, 2 %}|"
    "{% for i in arr offset: continue %}{{ i }}{% endfor %}|{% increment c %}|{% increment a %}|{% call m 'q' %}|{{ arr | map: q => a | join: ',' }}" + SUF_C
)

DATA = [
    {"g": "G", "arr": [1, 2, 3]},
    {"g": 0, "arr": [], "a": "dataA", "b": "dataB", "c": "dataC", "x": "dataX", "i": "dataI"},
]

INNER = "(inner {{ a }}{{ b }}{{ c }}{% increment c %})"


def bodies(maxlen: int) -> list[str]:
    out = list(BODY_STMTS)
    if maxlen >= 2:
        for x, y in itertools.product(BODY_STMTS[1:], repeat=2):
            out.append(x + y)
    return out


def wrappers(depth: int) -> list[str]:
    out = list(WRAPPERS)
    if depth >= 2:
        for x, y in itertools.product(WRAPPERS[1:], repeat=2):
            out.append(x.replace('@@', y))
    return out


def region(out: str, o: str, c: str) -> list[str]:
    parts = []
    i = 0
    while True:
        s = out.find(o, i)
        if s < 0:
            return parts
        e = out.find(c, s)
        if e < 0:
            parts.append(out[s:])
            return parts
        parts.append(out[s + 1 : e])
        i = e + 1


def _cut(s: str) -> str:
    import re

    return re.sub(OPEN + "[^" + CLOSE + "]*" + CLOSE, OPEN + CLOSE, s)


def _render(env: Any, src: str, d: dict[str, Any]) -> tuple[str, Any]:
    try:
        return ("ok", env.from_string(src, name="caller").render(**d))
    except LiquidError as e:
        return ("liquid", type(e).__name__)
    except Exception as e:  # noqa: BLE001
        return ("foreign", type(e).__name__ + ": " + str(e)[:60])


# ------------------------------------------------------------------ (i) + (ii)


def check_isolation(kind: str, body: str, arg: str, res: ShardResult | None, tier: str, only_wrapper: str | None = None) -> list[tuple[str, Any, Any, Any]]:
    """kind: 'render' | 'macro'. One case = one (body, arg): all wrappers x data are compared with each other."""
    out: list[tuple[str, Any, Any, Any]] = []
    ws = wrappers(1 if tier == "quick" else 2)
    if kind == "render":
        stmt = "{% render 'p'" + arg + " %}"
        templates = {"p": OPEN + body + CLOSE, "p0": OPEN + CLOSE, "inner": INNER}
        stmt0 = "{% render 'p0'" + arg + " %}"
        prelude = ""
    else:
        stmt = "{% call mm" + arg + " %}"
        stmt0 = "{% call mm0" + arg + " %}"
        templates = {"inner": INNER}
        prelude = "{% macro mm x, a: 'defA' %}" + OPEN + body + CLOSE + "{% endmacro %}{% macro mm0 x, a: 'defA' %}" + OPEN + CLOSE + "{% endmacro %}"
    env = impl.make_env(templates=templates)
    for di, d in enumerate(DATA):
        base_region = None
        for w in ws:
            if only_wrapper is not None and w != only_wrapper:
                if w != "@@":
                    continue
            src = prelude + w.replace("@@", stmt) + SUFFIX
            src0 = prelude + w.replace("@@", stmt0) + SUFFIX
            o = _render(env, src, d)
            o0 = _render(env, src0, d)
            if res is not None:
                res.evaluations += 2
                res.outcomes.add(h64([o[0], o0[0]]))
            case = {"kind": kind, "body": body, "arg": arg, "wrapper": w, "data_index": di}
            if o[0] == "foreign" or o0[0] == "foreign":
                out.append((f"C07:foreign-exception:{kind}", case, "LiquidError or output", o))
                continue
            if o[0] != "ok" or o0[0] != "ok":
                # an error in the partial (e.g. type error) is an outcome too: it must not depend on the caller
                key = o
                if base_region is None and w == "@@":
                    base_region = ("err", key)
                elif base_region is not None and base_region != ("err", key) and o[0] != "ok":
                    if base_region[0] == "err":
                        out.append((f"C07:partial-outcome-depends-on-caller:{kind}", case, base_region[1], o))
                continue
            regs = region(o[1], OPEN, CLOSE)
            # (i) every occurrence of the partial region equals the occurrence under the plain wrapper
            if w == "@@":
                base_region = ("ok", regs[0] if regs else None)
                if " for arr as a" in arg:
                    base_region = ("ok-multi", tuple(regs))
            elif base_region is not None and base_region[0] in ("ok", "ok-multi"):
                if base_region[0] == "ok-multi":
                    n = len(base_region[1])
                    chunks = [tuple(regs[k : k + n]) for k in range(0, len(regs), n)] if n else []
                    bad = [c for c in chunks if c != base_region[1]]
                else:
                    bad = [r for r in regs if r != base_region[1]]
                if bad:
                    out.append(
                        (
                            f"C07:partial-sees-caller-state:{kind}",
                            case,
                            {"region_under_plain_caller": base_region[1]},
                            {"region": bad[0], "source": src},
                        )
                    )
                if res is not None and regs:
                    res.nontrivial.add(h64([kind, body, arg, w, di]))
            # (ii) caller suffix identical for every body (baseline = empty body, same wrapper)
            # (the partial's own output may be captured by the caller and shown in the suffix: cut it out)
            suf = [_cut(x) for x in region(o[1], SUF_O, SUF_C)]
            suf0 = [_cut(x) for x in region(o0[1], SUF_O, SUF_C)]
            if suf != suf0:
                out.append(
                    (
                        f"C07:partial-changes-caller-state:{kind}",
                        case,
                        {"suffix_with_empty_body": suf0},
                        {"suffix": suf, "source": src},
                    )
                )
    return out


# ------------------------------------------------------------------ (iii) block constructs

# each: (name, template with %(n)s = bound name, %(exit)s = exit statement placed inside the block body)
CONSTRUCTS = [
    ("for", "{%% for %(n)s in arr %%}[{{ %(n)s }}%(exit)s]{%% endfor %%}"),
    ("for-else", "{%% for %(n)s in nothing %%}x{%% else %%}e{%% endfor %%}"),
    ("for-range-nested", "{%% for %(n)s in (1..2) %%}{%% for %(n)s in arr %%}{{ %(n)s }}%(exit)s{%% endfor %%}{{ %(n)s }}{%% endfor %%}"),
    ("tablerow", "{%% tablerow %(n)s in arr cols: 2 %%}{{ %(n)s }}%(exit)s{%% endtablerow %%}"),
    ("with", "{%% with %(n)s: 'inner' %%}{{ %(n)s }}{%% endwith %%}"),
    ("with-in-for", "{%% for zz in arr %%}{%% with %(n)s: zz %%}{{ %(n)s }}%(exit)s{%% endwith %%}{%% endfor %%}"),
    ("include-arg", "{%% include 'show', %(n)s: 'inner' %%}"),
    ("include-with-as", "{%% include 'show' with 'inner' as %(n)s %%}"),
    ("include-for-as", "{%% include 'show' for arr as %(n)s %%}"),
    ("render-arg", "{%% render 'show', %(n)s: 'inner' %%}"),
    ("render-with-as", "{%% render 'show' with 'inner' as %(n)s %%}"),
    ("render-for-as", "{%% render 'show' for arr as %(n)s %%}"),
    ("macro-param", "{%% macro mc %(n)s %%}{{ %(n)s }}{%% endmacro %%}{%% call mc 'inner' %%}"),
    ("macro-default", "{%% macro md %(n)s: 'dflt' %%}{{ %(n)s }}{%% endmacro %%}{%% call md %%}"),
    ("translate-arg", "{%% translate %(n)s: 'inner' %%}T{{ %(n)s }}{%% endtranslate %%}"),
    # bindings whose VALUE is nil: a name bound to nil is bound (the outer variable of that name stays hidden)
    ("with-nil", "{%% with %(n)s: nil %%}[{{ %(n)s }}|{%% if %(n)s == nil %%}N{%% else %%}V{%% endif %%}]{%% endwith %%}"),
    ("for-nil-items", "{%% for %(n)s in nils %%}[{{ %(n)s }}|{%% if %(n)s == nil %%}N{%% else %%}V{%% endif %%}%(exit)s]{%% endfor %%}"),
    ("tablerow-nil-items", "{%% tablerow %(n)s in nils %%}{%% if %(n)s == nil %%}N{%% else %%}V{%% endif %%}{%% endtablerow %%}"),
    ("include-arg-nil", "{%% include 'show', %(n)s: nil %%}"),
    ("render-arg-nil", "{%% render 'show', %(n)s: nil %%}"),
    ("render-for-nil", "{%% render 'show' for nils as %(n)s %%}"),
    ("macro-param-nil", "{%% macro mn %(n)s %%}{%% if %(n)s == nil %%}N{%% else %%}V{%% endif %%}{%% endmacro %%}{%% call mn nil %%}"),
    ("macro-default-nil", "{%% macro mo %(n)s: nil %%}{%% if %(n)s == nil %%}N{%% else %%}V{%% endif %%}{%% endmacro %%}{%% call mo %%}"),
    ("translate-arg-nil", "{%% translate %(n)s: nil %%}T{{ %(n)s }}{%% endtranslate %%}"),
    ("nil-items-lambda", "{{ nils | map: %(n)s => %(n)s | join: '+' }}{{ nils | where: %(n)s => %(n)s == nil | size }}"),
    ("capture-for", "{%% capture cc %%}{%% for %(n)s in arr %%}{{ %(n)s }}%(exit)s{%% endfor %%}{%% endcapture %%}"),
    ("forloop-name", "{%% for zz in arr %%}{{ forloop.index }}%(exit)s{%% endfor %%}"),
]
LAMBDA_FILTERS = ["map", "where", "reject", "find", "find_index", "has", "sort", "sort_natural", "sort_numeric", "sum", "uniq", "compact"]
EXITS = ["", "{% break %}", "{% continue %}", "{% if true %}{% break %}{% endif %}"]
OUTER = [
    ("assign", "{%% assign %(n)s = 'outer' %%}"),
    ("capture", "{%% capture %(n)s %%}outer{%% endcapture %%}"),
    ("global", ""),
    ("unbound", ""),
    ("with", None),  # handled specially: wrap everything in an outer with
]


def construct_cases() -> list[dict[str, Any]]:
    cases = []
    for cname, tmpl in CONSTRUCTS:
        exits = EXITS if "%(exit)s" in tmpl else [""]
        names = ["forloop"] if cname == "forloop-name" else ["n", "arr"]
        for ex in exits:
            for oname, _ in OUTER:
                for nm in names:
                    cases.append({"construct": cname, "exit": ex, "outer": oname, "name": nm})
    for f in LAMBDA_FILTERS:
        for form in ("x", "(x, i)"):
            for oname, _ in OUTER:
                cases.append({"construct": f"lambda-{f}", "form": form, "exit": "", "outer": oname, "name": "n"})
    return cases


def _construct_source(case: dict[str, Any]) -> tuple[str, str]:
    """Returns (construct source, name)."""
    nm = case["name"]
    c = case["construct"]
    if c.startswith("lambda-"):
        f = c[len("lambda-") :]
        params = nm if case["form"] == "x" else f"({nm}, ii)"
        body = f"{nm}.k" if f in ("map", "sort", "sort_natural", "sort_numeric", "sum", "uniq", "compact") else f"{nm}.k == 2"
        return "{{ objs | " + f + ": " + params + " => " + body + " | json }}", nm
    tmpl = dict(CONSTRUCTS)[c]
    return tmpl % {"n": nm, "exit": case["exit"]}, nm


def check_construct(case: dict[str, Any], res: ShardResult | None) -> list[tuple[str, Any, Any, Any]]:
    out: list[tuple[str, Any, Any, Any]] = []
    src_c, nm = _construct_source(case)
    outer = case["outer"]
    probe = "⟨{{ " + nm + " }}|{{ " + nm + " | json }}⟩"
    if outer == "with":
        src = "{% with " + nm + ": 'outerW' %}" + probe + src_c + probe + "{% endwith %}"
    else:
        pre = dict(OUTER)[outer] % {"n": nm} if dict(OUTER)[outer] else ""
        src = pre + probe + src_c + probe
    data: dict[str, Any] = {"arr": [1, 2, 3], "objs": [{"k": 1}, {"k": 2}, {"k": 2}], "nils": [1, None, 3]}
    if outer == "global":
        data[nm] = "outerG" if nm != "arr" else data["arr"]
    if nm == "arr" and outer in ("assign", "capture", "with"):
        # binding the iterable's own name: keep an iterable for the loop through a second name
        src = src.replace(" in arr ", " in arr2 ").replace(" for arr as", " for arr2 as")
        data["arr2"] = [1, 2, 3]
    env = impl.make_env(templates={"show": "({{ " + nm + " }}|{% if " + nm + " == nil %}N{% else %}V{% endif %})"}, shopify=True)
    o = _render(env, src, data)
    if res is not None:
        res.evaluations += 1
        res.outcomes.add(h64([o[0], case["construct"]]))
    # what the construct itself prints (between the two probes) must not depend on how the name is bound outside it:
    # the construct binds the name, so the outer binding is hidden (compared with the 'unbound' variant of the same case)
    if outer not in ("unbound", "global") and o[0] == "ok" and not _inner_reads_outer(case):
        # (the reference is the variant where the name is bound in the data: the probes of the unbound variant cannot be
        #  printed, `undefined | json` is an error)
        ref = _render_variant({**case, "outer": "global"})
        if ref[0] == "ok":
            mine, theirs = _between(o[1]), _between(ref[1])
            if mine is not None and theirs is not None and mine != theirs:
                out.append((f"C07:outer-binding-visible-inside-construct:{case['construct']}", {**case, "source": src}, {"inside_when_bound_in_data": theirs}, {"inside": mine, "output": o[1]}))
    if o[0] == "foreign":
        out.append((f"C07:foreign-exception:{case['construct']}", case, "no foreign exception", o))
        return out
    if o[0] == "ok":
        probes = region(o[1], "⟨", "⟩")
        if len(probes) == 2 and probes[0] != probes[1]:
            out.append(
                (
                    f"C07:block-binding-leaks:{case['construct']}:{'exit' if case['exit'] else 'normal'}",
                    {**case, "source": src},
                    {"probe_before": probes[0]},
                    {"probe_after": probes[1], "output": o[1]},
                )
            )
        if res is not None and len(probes) == 2:
            res.nontrivial.add(h64(case))
    if _VARIANT[0]:
        return out
    # error exits: a fault at every data access inside the block, then reuse the same context
    out.extend(_fault_exits(env, case, src, nm, data, res))
    return out


def _between(out: str) -> str | None:
    i, j = out.find("⟩"), out.rfind("⟨")
    return out[i + 1 : j] if 0 <= i < j else None


def _inner_reads_outer(case: dict[str, Any]) -> bool:
    """Constructs whose printed part legitimately shows the outer value: the else branch of an empty loop, text printed
    after an inner loop ended, and the loop whose iterable IS the outer name."""
    return case["construct"] in ("for-else", "for-range-nested", "forloop-name") or case["name"] == "arr"


def _render_variant(case: dict[str, Any]) -> tuple[str, Any]:
    r = ShardResult()
    holder: list[tuple[str, Any]] = []
    orig = globals()["_render"]

    def spy(env: Any, src: str, d: dict[str, Any]) -> tuple[str, Any]:
        o = orig(env, src, d)
        if not holder:
            holder.append(o)
        return o

    globals()["_render"] = spy
    try:
        _VARIANT[0] = True
        check_construct(case, None)
    finally:
        _VARIANT[0] = False
        globals()["_render"] = orig
    return holder[0] if holder else ("none", None)


_VARIANT = [False]


class _Boom(Exception):
    pass


class _FaultList(list):  # type: ignore[type-arg]
    """A list whose k-th element access (iteration step or index) raises a LiquidError subclass."""

    def __init__(self, items: list[Any], counter: list[int], k: int) -> None:
        super().__init__(items)
        self._c = counter
        self._k = k

    def __iter__(self):  # noqa: ANN204
        for x in list.__iter__(self):
            self._c[0] += 1
            if self._c[0] == self._k:
                from liquid2.exceptions import LiquidTypeError

                raise LiquidTypeError(f"injected fault at access {self._k}", token=None)
            yield x


def _fault_exits(env: Any, case: dict[str, Any], src: str, nm: str, data: dict[str, Any], res: ShardResult | None) -> list[tuple[str, Any, Any, Any]]:
    out: list[tuple[str, Any, Any, Any]] = []
    try:
        t = env.from_string(src, name="caller")
    except LiquidError:
        return out
    probe_t = env.from_string("⟨{{ " + nm + " }}⟩", name="probe")
    # number of accesses in the fault-free run
    counter = [0]
    d0 = {k: (_FaultList(v, counter, -1) if isinstance(v, list) else v) for k, v in data.items()}
    try:
        t.render(**d0)
    except LiquidError:
        pass
    n = counter[0]
    for k in range(1, n + 1):
        counter = [0]
        d = {key: (_FaultList(v, counter, k) if isinstance(v, list) else v) for key, v in data.items()}
        ctx = RenderContext(t, global_data=t.make_globals(d))
        depth0, loops0, tmpl0 = ctx.scope.size(), list(ctx.loops), ctx.template
        buf = io.StringIO()
        try:
            t.render_with_context(ctx, buf)
            continue  # the fault was not reached in this run
        except LiquidError:
            pass
        except Exception as e:  # noqa: BLE001
            out.append((f"C07:foreign-exception-on-fault:{case['construct']}", {**case, "fault": k}, "LiquidError", type(e).__name__))
            continue
        if res is not None:
            res.evaluations += 1
            res.count("fault_exits")
        state = (ctx.scope.size(), list(ctx.loops), ctx.template)
        if state != (depth0, loops0, tmpl0):
            out.append(
                (
                    f"C07:context-not-restored-after-error:{case['construct']}",
                    {**case, "fault": k, "source": src},
                    {"scope_depth": depth0, "loops": len(loops0)},
                    {"scope_depth": state[0], "loops": len(state[1]), "template_restored": state[2] is tmpl0},
                )
            )
            continue
        # the same context renders a probe: block-scoped names must be gone
        buf2 = io.StringIO()
        want_buf = io.StringIO()
        try:
            probe_t.render_with_context(ctx, buf2)
            fresh = RenderContext(t, global_data=t.make_globals(d))
            fresh.locals.update(ctx.locals)  # template-level assignments made before the error legitimately persist
            fresh.counters.update(ctx.counters)
            probe_t.render_with_context(fresh, want_buf)
        except LiquidError:
            continue
        if buf2.getvalue() != want_buf.getvalue():
            out.append(
                (
                    f"C07:block-binding-visible-after-error:{case['construct']}",
                    {**case, "fault": k, "source": src},
                    want_buf.getvalue(),
                    buf2.getvalue(),
                )
            )
    return out


# ------------------------------------------------------------------ (iv) include refused

INCLUDE_PLACEMENTS = [
    "{% include 'inner' %}",
    "{% if true %}{% include 'inner' %}{% endif %}",
    "{% unless false %}{% include 'inner' %}{% endunless %}",
    "{% for i in (1..1) %}{% include 'inner' %}{% endfor %}",
    "{% case 1 %}{% when 1 %}{% include 'inner' %}{% endcase %}",
    "{% liquid\n include 'inner'\n%}",
    "{% capture zz %}{% include 'inner' %}{% endcapture %}",
    "{% with q: 1 %}{% include 'inner' %}{% endwith %}",
    "{% render 'inc' %}",
    "{% for i in nothing %}{% else %}{% include 'inner' %}{% endfor %}",
    "{% assign nm = 'inner' %}{% include nm %}",
    "{% include 'inner' for arr as z %}",
    # through template inheritance: the include sits in an overriding block, or in the parent's own block
    "{% extends 'pbase' %}{% block b %}{% include 'inner' %}{% endblock %}",
    "{% extends 'pbase2' %}",
    "{% extends 'pbase2' %}{% block b %}<{{ block.super }}>{% endblock %}",
    "{% extends 'pbase' %}{% block b %}{% for i in (1..1) %}{% if true %}{% include 'inner' %}{% endif %}{% endfor %}{% endblock %}",
]


def check_include_refused(i: int, res: ShardResult | None) -> list[tuple[str, Any, Any, Any]]:
    out: list[tuple[str, Any, Any, Any]] = []
    placement = INCLUDE_PLACEMENTS[i]
    templates = {"inner": "INNER", "inc": "{% include 'inner' %}", "p": placement, "pbase": "[{% block b %}{% endblock %}]", "pbase2": "[{% block b %}{% include 'inner' %}{% endblock %}]"}
    env = impl.make_env(templates=templates)
    srcs = {
        "render": "{% render 'p' %}",
        "render-for": "{% render 'p' for arr as z %}",
        "render-nested": "{% render 'inc2' %}",
        "macro": "{% macro mm %}" + placement + "{% endmacro %}{% call mm %}",
        "macro-in-for": "{% macro mm %}" + placement + "{% endmacro %}{% for q in (1..1) %}{% call mm %}{% endfor %}",
    }
    if "extends" in placement:
        del srcs["macro"], srcs["macro-in-for"]  # (extends is not meaningful inside a macro body)
    env.loader.templates["inc2"] = "{% render 'p' %}"
    for how, src in srcs.items():
        try:
            got = ("ok", env.from_string(src).render(arr=[1]))
        except DisabledTagError:
            got = ("disabled", None)
        except LiquidError as e:
            got = ("liquid", type(e).__name__)
        if res is not None:
            res.evaluations += 1
            res.nontrivial.add(h64([i, how]))
        if got[0] != "disabled":
            out.append((f"C07:include-allowed-inside:{how}", {"placement": placement, "how": how, "source": src}, "DisabledTagError", got))
    return out


# ------------------------------------------------------------------ (v) isolated scopes nested in other scopes

NEST_HOSTS = [
    # (name, root source, extra templates). Every host ends up rendering the template 'inner' (or calling the macro `im`,
    # whose body is INNER) from inside another scope: what inner prints must equal what it prints when rendered alone.
    ("render-in-render", "{% render 'mid'@ARG@ %}", {"mid": "{% render 'inner' %}"}),
    ("render-in-render-in-for", "{% render 'mid'@ARG@ %}", {"mid": "{% assign a = 'midA' %}{% for b in arr %}{% render 'inner' %}{% endfor %}"}),
    ("render-in-render-for", "{% render 'mid' for arr as a %}", {"mid": "{% render 'inner' %}"}),
    ("render-in-overriding-block", "{% render 'child'@ARG@ %}", {"child": "{% extends 'nb' %}{% block blk %}{% render 'inner' %}{% endblock %}", "nb": "{% assign a = 'baseA' %}{% capture b %}baseB{% endcapture %}[{% block blk %}{% endblock %}]"}),
    ("render-in-block-of-root-chain", "{% extends 'nb' %}{% block blk %}{% assign c = 'blkC' %}{% render 'inner' %}{% endblock %}", {"nb": "{% assign a = 'baseA' %}{% for b in arr limit: 1 %}[{% block blk %}{% endblock %}]{% endfor %}"}),
    ("render-in-macro", "{% macro om a, b: 'dB' %}{% assign c = 'macC' %}{% render 'inner' %}{% endmacro %}{% call om 'argA' %}", {}),
    ("macro-in-macro", "{% macro om a, b: 'dB' %}{% macro im %}@INNER@{% endmacro %}{% call im %}{% endmacro %}{% call om 'argA' %}", {}),
    ("macro-in-render", "{% render 'mm'@ARG@ %}", {"mm": "{% assign b = 'mmB' %}{% macro im %}@INNER@{% endmacro %}{% call im %}"}),
    ("macro-in-overriding-block", "{% extends 'nb' %}{% block blk %}{% macro im %}@INNER@{% endmacro %}{% call im %}{% endblock %}", {"nb": "{% assign a = 'baseA' %}[{% block blk %}{% endblock %}]"}),
]


def check_nested(i: int, res: ShardResult | None) -> list[tuple[str, Any, Any, Any]]:
    out: list[tuple[str, Any, Any, Any]] = []
    name, root, extra = NEST_HOSTS[i]
    for arg in (ARGS if "@ARG@" in root else [""]):
        if " for arr" in arg:
            continue
        src = root.replace("@ARG@", arg).replace("@INNER@", INNER)
        templates = {"inner": INNER, **{k: v.replace("@INNER@", INNER) for k, v in extra.items()}}
        env = impl.make_env(templates=templates, shopify=True)
        for d in DATA:
            alone = _render(env, "{% render 'inner' %}", d)
            got = _render(env, src, d)
            if res is not None:
                res.evaluations += 2
            if got[0] != "ok" or alone[0] != "ok":
                if got[0] != alone[0]:
                    out.append((f"C07:nested-scope-outcome-differs:{name}", {"host": name, "arg": arg, "source": src, "templates": templates}, list(alone), list(got)))
                continue
            want = region(alone[1], "(inner ", ")")
            have = region(got[1], "(inner ", ")")
            if res is not None:
                if have:
                    res.nontrivial.add(h64([name, arg, repr(d)]))
                res.outcomes.add(h64([name, bool(have)]))
            if any(h != want[0] for h in have):  # (no nested render at all: the host's loop ran zero times)
                out.append((f"C07:nested-scope-sees-enclosing-scope:{name}", {"host": name, "arg": arg, "source": src, "templates": templates, "data": repr(d)}, {"inner_rendered_alone": want}, {"inner_rendered_nested": have, "output": got[1]}))
                break
    return out


# ------------------------------------------------------------------ harness interface


def _iso_cases(tier: str) -> list[tuple[str, str, str]]:
    bs = bodies(2)
    cases = []
    for b in bs:
        for a in ARGS:
            cases.append(("render", b, a))
        for a in MACRO_ARGS:
            cases.append(("macro", b, a))
    return cases


def plan(tier: str, seed: int):
    iso = _iso_cases(tier)
    cons = construct_cases()
    shards: list[Any] = []
    from mc.harness import chunks

    for lo, hi in chunks(len(iso), 96):
        shards.append(("iso", tier, lo, hi))
    for lo, hi in chunks(len(cons), 32):
        shards.append(("cons", tier, lo, hi))
    shards.append(("incl", tier, 0, len(INCLUDE_PLACEMENTS)))
    shards.append(("nested", tier, 0, len(NEST_HOSTS)))
    meta = {
        "space_size": len(iso) + len(cons) + len(INCLUDE_PLACEMENTS) + len(NEST_HOSTS),
        "subspaces": {"isolation (body,args) cases": len(iso), "wrappers": len(wrappers(1 if tier == "quick" else 2)),
                      "block constructs": len(cons), "include placements": len(INCLUDE_PLACEMENTS)},
        "bounds": {"body_len": 2, "wrapper_depth": 1 if tier == "quick" else 2, "data_sets": len(DATA)},
    }
    return shards, meta


def run_shard(shard) -> ShardResult:
    res = ShardResult()
    kind, tier, lo, hi = shard
    if kind == "iso":
        cases = _iso_cases(tier)
        for i in range(lo, hi):
            k, b, a = cases[i]
            res.cases += 1
            for sig, case, exp, obs in check_isolation(k, b, a, res, tier):
                res.violation(sig, {"part": "iso", "tier": tier, **case}, exp, obs)
        if lo % 5 == 0:
            res.samples.append({"part": "iso", "case": list(cases[lo]), "wrappers": WRAPPERS[8:11]})
    elif kind == "cons":
        cases = construct_cases()
        for i in range(lo, hi):
            res.cases += 1
            for sig, case, exp, obs in check_construct(cases[i], res):
                res.violation(sig, {"part": "cons", "tier": tier, **case}, exp, obs)
        res.samples.append({"part": "cons", "case": cases[lo]})
    elif kind == "nested":
        for i in range(lo, hi):
            res.cases += 1
            for sig, case, exp, obs in check_nested(i, res):
                res.violation(sig, {"part": "nested", "tier": tier, "index": i, **case}, exp, obs)
    else:
        for i in range(lo, hi):
            res.cases += 1
            for sig, case, exp, obs in check_include_refused(i, res):
                res.violation(sig, {"part": "incl", "tier": tier, "index": i, **case}, exp, obs)
    return res


def replay(case: dict[str, Any]) -> list[dict[str, Any]]:
    res = ShardResult()
    part = case["part"]
    if part == "iso":
        for sig, c, exp, obs in check_isolation(case["kind"], case["body"], case["arg"], None, case.get("tier", "quick"), only_wrapper=case["wrapper"]):
            if c["wrapper"] == case["wrapper"] and c["data_index"] == case["data_index"]:
                res.violation(sig, case, exp, obs)
    elif part == "cons":
        c = {k: case[k] for k in ("construct", "exit", "outer", "name") if k in case}
        if "form" in case:
            c["form"] = case["form"]
        for sig, cc, exp, obs in check_construct(c, None):
            res.violation(sig, case, exp, obs)
    elif part == "nested":
        for sig, cc, exp, obs in check_nested(case["index"], None):
            res.violation(sig, case, exp, obs)
    else:
        for sig, cc, exp, obs in check_include_refused(case["index"], None):
            if cc["how"] == case["how"]:
                res.violation(sig, case, exp, obs)
    return res.violations
