"""E3 — explicit-state breadth-first search over operation histories on real objects.

Live liquid2 objects do not deep-copy reliably, so a state *is* the history that reaches it and is
rebuilt by replaying the history on fresh objects. `replay(history)` must return
(canonical_state_key, problems_of_last_step). Histories whose canonical state was already seen are
not extended (their futures are equal by the canonicalisation argument in DESIGN.md section 2/E3).
"""

from __future__ import annotations

from collections import deque
from typing import Any
from typing import Callable
from typing import Hashable
from typing import Iterable


def bfs(
    replay: Callable[[tuple], tuple[Hashable, list[Any]]],
    alphabet: Callable[[tuple], Iterable[Any]],
    depth: int,
    *,
    max_transitions: int | None = None,
) -> dict[str, Any]:
    """Returns {'states', 'transitions', 'max_depth', 'problems': [(history, problem)], 'capped'}."""
    init_key, init_problems = replay(())
    seen = {init_key}
    frontier: deque[tuple] = deque([()])
    transitions = 0
    problems: list[tuple[tuple, Any]] = [((), p) for p in init_problems]
    max_depth = 0
    capped = False
    while frontier:
        hist = frontier.popleft()
        if len(hist) >= depth:
            continue
        for op in alphabet(hist):
            nxt = hist + (op,)
            key, probs = replay(nxt)
            transitions += 1
            max_depth = max(max_depth, len(nxt))
            for p in probs:
                problems.append((nxt, p))
            if key not in seen:
                seen.add(key)
                if not probs:  # do not extend a state that already violates (first counterexample is shortest)
                    frontier.append(nxt)
            if max_transitions is not None and transitions >= max_transitions:
                capped = True
                frontier.clear()
                break
    return {
        "states": len(seen),
        "transitions": transitions,
        "max_depth": max_depth,
        "problems": problems,
        "capped": capped,
        "state_keys": seen,
    }
