"""Thin adapter to liquid2: environments per configuration, outcome classification, corpora."""

from __future__ import annotations

import json
from functools import lru_cache
from pathlib import Path
from typing import Any

import liquid2
from liquid2 import DictLoader
from liquid2 import Environment
from liquid2.exceptions import LiquidError
from liquid2.token import WhitespaceControl

REPO = Path(liquid2.__file__).resolve().parent.parent

TRIM = {"+": WhitespaceControl.PLUS, "-": WhitespaceControl.MINUS, "~": WhitespaceControl.TILDE}


def make_env(
    *,
    trim: str = "+",
    suppress: bool = True,
    shorthand: bool = False,
    auto_escape: bool = False,
    undefined: Any = None,
    templates: dict[str, str] | None = None,
    loader: Any = None,
    shopify: bool = False,
    limits: dict[str, Any] | None = None,
    globals: dict[str, Any] | None = None,
    validate: bool = True,
) -> Environment:
    """A fresh Environment subclass instance for one configuration tuple.

    Class-level settings (limits, shorthand_indexes, suppress...) are set on a
    *fresh subclass* so that configuring one environment can never touch another."""
    if shopify:
        from liquid2.shopify import Environment as Base
    else:
        Base = Environment
    attrs: dict[str, Any] = {
        "suppress_blank_control_flow_blocks": suppress,
        "shorthand_indexes": shorthand,
    }
    if limits:
        attrs.update(limits)
    if suppress and not shorthand and not limits:
        cls = Base  # the stock class (picklable by reference)
    else:
        cls = type("VEnv", (Base,), attrs)
    kw: dict[str, Any] = {}
    if undefined is not None:
        kw["undefined"] = undefined
    if loader is None:
        loader = DictLoader(dict(templates or {}))
    return cls(
        loader=loader,
        auto_escape=auto_escape,
        default_trim=TRIM[trim],
        globals=globals,
        validate_filter_arguments=validate,
        **kw,
    )


def outcome(fn, *a, **kw) -> tuple[str, Any]:
    """('ok', value) | ('liquid', ExcClassName) | ('foreign', 'ExcClass: msg')."""
    try:
        return ("ok", fn(*a, **kw))
    except LiquidError as e:
        return ("liquid", type(e).__name__)
    except RecursionError:
        return ("foreign", "RecursionError")
    except Exception as e:  # noqa: BLE001
        return ("foreign", f"{type(e).__name__}: {str(e)[:120]}")


@lru_cache(maxsize=1)
def compliance_suite() -> list[dict[str, Any]]:
    """The repo's compliance test corpus, read from /repo/tests at run time."""
    p = REPO / "tests" / "liquid2-compliance-test-suite" / "cts.json"
    try:
        return json.loads(p.read_text())["tests"]
    except Exception:  # noqa: BLE001
        return []


def corpus_templates() -> list[str]:
    """Distinct template sources (main + partial) from the compliance corpus, sorted by length."""
    seen: dict[str, None] = {}
    for t in compliance_suite():
        seen.setdefault(t["template"], None)
        for src in (t.get("templates") or {}).values():
            seen.setdefault(src, None)
    return sorted(seen, key=lambda s: (len(s), s))
