"""Program spaces shared by the program-level differential checks (C03, C10, C11, C12, C16, ...).

A space is a list of named sub-spaces; each sub-space has a size and a function index -> case,
where a case is a dict with at least {"prog": body, "layout": {...}, "seed": s, "env": {...}}.
Shards are (subspace name, lo, hi) ranges, so sharding is a deterministic partition.
"""

from __future__ import annotations

import itertools
import re
from typing import Any
from typing import Callable

from . import grammar
from .harness import chunks
from .lang import Layout
from .lang import print_program


class SubSpace:
    def __init__(self, name: str, size: int, at: Callable[[int], dict[str, Any]]) -> None:
        self.name = name
        self.size = size
        self.at = at


def layout_of(d: dict[str, Any] | None) -> Layout:
    d = d or {}
    return Layout(
        style=d.get("style", "canon"),
        quote=d.get("quote", "'"),
        markers=tuple(d["markers"]) if d.get("markers") is not None else None,
        kwsep=d.get("kwsep", ":"),
        comment_between=d.get("comment_between"),
    )


def case_source(case: dict[str, Any]) -> str:
    if "source" in case:
        return case["source"]
    return print_program(totuple(case["prog"]), layout_of(case.get("layout")))


def totuple(x: Any) -> Any:
    """JSON round trip turns tuples into lists; the mini-AST wants tuples."""
    if isinstance(x, list):
        return tuple(totuple(y) for y in x)
    if isinstance(x, tuple):
        return tuple(totuple(y) for y in x)
    return x


def standard_spaces(seed: int, tier: str, *, shopify: bool = False, pairs: str = "l0") -> list[SubSpace]:
    """The standard program space: op singles under 3 layouts, pairs, wide expressions, primitives in tag sites."""
    n = grammar.Names(seed)
    ops = grammar.ops(seed)
    l0 = grammar.level0(seed)
    l1s = grammar.level1_small(seed)
    spaces: list[SubSpace] = []
    styles = ("canon", "tight", "loose")

    def singles(i: int) -> dict[str, Any]:
        st = ops[i // 3]
        return {"prog": (st,), "layout": {"style": styles[i % 3]}, "seed": seed}

    spaces.append(SubSpace("op-singles-x-layout", len(ops) * 3, singles))

    pool = l0 if pairs == "l0" or tier == "quick" else tuple(l0) + tuple(l1s)
    pool2 = tuple(l0) + tuple(l1s)

    def pair(i: int) -> dict[str, Any]:
        x, y = pool2[i // len(pool)], pool[i % len(pool)]
        return {"prog": (x, y), "layout": {}, "seed": seed}

    spaces.append(SubSpace("op-pairs", len(pool2) * len(pool), pair))

    wide = grammar.wide_exprs(n, tier)
    esites = [prog for e in wide for prog in grammar.expr_sites(n, e)]
    quotes = ("'", '"')

    def esite(i: int) -> dict[str, Any]:
        return {"prog": esites[i // 2], "layout": {"quote": quotes[i % 2]}, "seed": seed}

    spaces.append(SubSpace("wide-expr-sites", len(esites) * 2, esite))

    prims = grammar.wide_primitives(n)
    psites = [prog for p in prims for prog in grammar.prim_sites(n, p, shopify=shopify)]

    def psite(i: int) -> dict[str, Any]:
        return {"prog": psites[i // 2], "layout": {"quote": quotes[i % 2], "kwsep": ":" if i % 4 < 2 else "="}, "seed": seed}

    spaces.append(SubSpace("primitive-sites", len(psites) * 2, psite))

    bools = grammar.bool_exprs(n)

    def bsite(i: int) -> dict[str, Any]:
        b = bools[i // 2]
        if i % 2 == 0:
            prog = (("if", ((b, (("text", "y"),)),), (("text", "n"),)),)
        else:
            prog = (("out", ("ternary", (("filtered", ("str", "y"), ())), b, ("str", "n"), (), ())),)
        return {"prog": prog, "layout": {}, "seed": seed}

    spaces.append(SubSpace("boolean-exprs", len(bools) * 2, bsite))
    return spaces


MARKS = ("", "-", "~", "+")


def marker_spaces(seed: int, tier: str, kmax: int) -> list[SubSpace]:
    """All 4^k marker assignments for programs with k <= kmax marker positions."""
    from .lang import marker_positions

    n = grammar.Names(seed)
    l0 = grammar.level0(seed)
    txt = [("text", " \n x \t"), ("text", "\n")]
    progs: list[tuple] = []
    for st in list(l0) + list(grammar.level1_small(seed)):
        progs.append((txt[0], st, txt[0]))
    items: list[tuple[tuple, int]] = []
    for p in progs:
        k = marker_positions(p)
        if 0 < k <= kmax:
            items.append((p, k))
    offsets = []
    total = 0
    for p, k in items:
        offsets.append(total)
        total += 4**k

    import bisect

    def at(i: int) -> dict[str, Any]:
        j = bisect.bisect_right(offsets, i) - 1
        p, k = items[j]
        r = i - offsets[j]
        marks = []
        for _ in range(k):
            r, d = divmod(r, 4)
            marks.append(MARKS[d])
        return {"prog": p, "layout": {"markers": marks}, "seed": seed}

    return [SubSpace(f"marker-cube-k<={kmax}", total, at)]


def shards_for(spaces: list[SubSpace], per: int = 400) -> list[tuple[str, int, int]]:
    """Partition every sub-space into contiguous index ranges of about `per` cases (at most 160 per sub-space)."""
    out = []
    for sp in spaces:
        for lo, hi in chunks(sp.size, max(1, min(160, -(-sp.size // per)))):
            out.append((sp.name, lo, hi))
    return out


_num = re.compile(r"-?\d+")
_str = re.compile(r"'[^']*'|\"[^\"]*\"")


def norm_msg(msg: str) -> str:
    """Error message with numbers and quoted strings abstracted (for signatures)."""
    first = msg.strip().splitlines()[0] if msg.strip() else ""
    return _num.sub("N", _str.sub("Q", first))[:120]


def kinds(prog: Any) -> str:
    return "+".join(st[0] for st in totuple(prog))


def corpus_space() -> SubSpace:
    """The repo's compliance corpus as program cases (own data and partial templates), valid templates only."""
    from . import impl

    tests = [t for t in impl.compliance_suite() if not t.get("invalid")]

    def at(i: int) -> dict[str, Any]:
        t = tests[i]
        return {"source": t["template"], "data": t.get("data") or {}, "templates": t.get("templates") or {}, "name": t["name"]}

    return SubSpace("compliance-corpus", len(tests), at)
