"""Named alphabets and per-property program spaces (E1)."""

from __future__ import annotations


def printed_corpus(tier: str) -> list[str]:
    return []
