"""Named alphabets and program spaces shared by the checks (E1).

Everything here is a finite, explicitly materialised list; a case is (list name, index).
`Names(seed)` relabels the abstract symbols (variable / macro / partial names and the
literal text characters): different seeds give isomorphic exhaustive runs.
"""

from __future__ import annotations

import itertools
from functools import lru_cache
from typing import Any

from .lang import BLANK
from .lang import EMPTY
from .lang import FL
from .lang import I
from .lang import NIL
from .lang import S
from .lang import TRUE
from .lang import FALSE
from .lang import V
from .lang import Layout
from .lang import flt
from .lang import line_form_ok
from .lang import print_program

RELABEL = [
    dict(a="a", b="b", g="g", h="h", arr="arr", c="c", m="m", p="p", q="q", i="i", j="j", T="T", U="U"),
    dict(a="x_1", b="é-x", g="G", h="h-h", arr="list", c="n", m="mac", p="part", q="q2", i="it", j="jt", T="Ω", U="z9"),
    dict(a="_a", b="b2", g="gg", h="ɦ", arr="a_r", c="cnt", m="m_", p="p-1", q="qq", i="i_", j="j_", T="t", U="Ü"),
]


class Names:
    def __init__(self, seed: int = 0) -> None:
        self.map = RELABEL[seed % len(RELABEL)]
        for k, v in self.map.items():
            setattr(self, k, v)


def data_sets(n: Names) -> list[dict[str, Any]]:
    """The shared JSON-like data domain: every condition of the grammar takes both truth values,
    every loop runs 0 and >=1 times, paths hit present / missing / wrong-type values."""
    return [
        {},
        {n.g: 1, n.h: "x", n.arr: [1, 2, 3]},
        {n.g: 0, n.h: "", n.arr: []},
        {n.g: "a", n.h: None, n.arr: ["b", "a", "a"]},
        {n.g: True, n.h: {"a": 1, "size": "S"}, n.arr: [[1, 2], [3]]},
        {n.g: False, n.h: [1], n.arr: {"a": {"b": [1]}, "k": 2}},
        {n.g: 1.5, n.h: " ", n.arr: "str"},
        {n.g: 2, n.h: 2, n.arr: [{"a": 1, "k": "x"}, {"a": 2}, {"k": None}]},
    ]


def partials(n: Names) -> dict[str, tuple]:
    """Partial templates served by the loader (as mini-AST bodies)."""
    return {
        n.p: (
            ("text", "["),
            ("out", V(n.a)),
            ("out", V(n.b)),
            ("out", V(n.g)),
            ("assign", n.a, I(9)),
            ("increment", n.c),
            ("text", "]"),
        ),
        n.q: (
            ("text", "<"),
            ("for", n.i, V(n.arr), (), (("out", V(n.i)), ("cycle", None, (S("x"), S("y")))), (("text", "none"),)),
            ("capture", n.b, (("text", "Q"),)),
            ("text", ">"),
        ),
    }


def conds(n: Names) -> list[tuple]:
    a, b, g, h, arr = n.a, n.b, n.g, n.h, n.arr
    return [
        V(g),
        ("not", V(g)),
        ("cmp", "==", V(a), I(1)),
        ("cmp", "==", V(g), V(h)),
        ("cmp", "contains", V(arr), I(1)),
        ("and", V(g), V(h)),
        ("or", V(a), ("cmp", "!=", V(h), S("x"))),
        ("cmp", "<", V(g), I(2)),
        ("cmp", "==", V(h), EMPTY),
        ("cmp", "==", V(h), BLANK),
    ]


def leaves(n: Names) -> list[tuple]:
    a, b, g, h, arr, c, m, p, q = n.a, n.b, n.g, n.h, n.arr, n.c, n.m, n.p, n.q
    return [
        ("text", n.T),
        ("text", " \n"),
        ("out", V(a)),
        ("out", V(g)),
        ("out", FL(V(a), flt("append", V(b)))),
        ("out", FL(V(arr), flt("first"))),
        ("out", V(h, "a")),
        ("out", V(arr, 0)),
        ("assign", a, I(1)),
        ("assign", a, S("s")),
        ("assign", a, V(b)),
        ("assign", b, V(g)),
        ("assign", a, FL(V(arr), flt("reverse"))),
        ("capture", a, (("text", n.U), ("out", V(g)))),
        ("increment", c),
        ("decrement", c),
        ("increment", a),
        ("out", V(c)),
        ("cycle", None, (I(1), I(2))),
        ("cycle", S("grp"), (I(1), I(2))),
        ("cycle", None, (V(a), I(2))),
        ("cycle", S("a b"), (I(1), I(2))),
        ("echo", V(a)),
        ("break",),
        ("continue",),
        ("comment", "hash", " c "),
        ("comment", "inline", " c "),
        ("comment", "block", " c "),
        ("raw", " {{ r }}\n"),
        ("macro", m, (("x", None), (b, I(2))), (("text", "("), ("out", V("x")), ("out", V(b)), ("out", V(a)), ("assign", a, I(7)), ("text", ")"))),
        ("call", m, (I(1),), ()),
        ("call", m, (), ((b, V(a)),)),
        ("include", S(p), None, None, False, ()),
        ("render", p, None, None, False, ()),
        ("render", p, None, None, False, ((a, V(b)),)),
        ("include", S(p), V(g), b, False, ()),
        ("render", q, None, None, False, ((arr, V(arr)),)),
        ("include", S(q), None, None, False, ()),
    ]


def blocks(n: Names, bodies: list[tuple], bodies2: list[tuple] | None = None) -> list[tuple]:
    """Every block constructor applied to every candidate body (bodies2: the alternative branch)."""
    a, b, g, h, arr, i = n.a, n.b, n.g, n.h, n.arr, n.i
    alt = bodies2 if bodies2 is not None else [(("text", "E"),)]
    cs = conds(n)
    out: list[tuple] = []
    for body in bodies:
        for cnd in (cs[0], cs[2], cs[7]):
            out.append(("if", ((cnd, body),), None))
        out.append(("unless", cs[0], body, (), None))
        out.append(("for", i, V(arr), (), body, None))
        out.append(("for", i, ("range", I(1), V(g)), (("limit", I(2)),), body, None))
        out.append(("for", a, V(arr), (("offset", "continue"), ("limit", I(1))), body, None))
        out.append(("for", i, V(arr), (("reversed",), ("offset", I(1))), body, None))
        out.append(("with", ((a, V(g)),), body))
        out.append(("capture", b, body))
        out.append(("case", V(g), (((I(1), S("a")), body),), None))
        for e in alt:
            out.append(("if", ((cs[0], body),), e))
            out.append(("if", ((cs[2], body), (cs[3], e)), (("text", "Z"),)))
            out.append(("for", i, V(arr), (), body, e))
            out.append(("case", V(g), (((I(1),), body), ((V(h), I(2)), e)), (("text", "D"),)))
            out.append(("unless", cs[0], body, (), e))
            out.append(("unless", cs[0], body, ((cs[2], e),), None))
            out.append(("unless", cs[0], body, ((cs[3], e), (cs[2], body)), (("text", "Z"),)))
    return out


@lru_cache(maxsize=8)
def mixed_blank_nests(seed: int = 0, small: bool = False) -> tuple[tuple, ...]:
    """Two-level nests in which the inner block mixes blank and non-blank branches (body / else / elsif / when) and the
    outer block has nothing else to say: whether the outer block is 'blank' depends on every branch of the inner one."""
    n = Names(seed)
    blank_bodies: list[tuple] = [(("text", " \n"),), ()]
    loud_bodies: list[tuple] = [(("out", V(n.g)),), (("text", "L"),)]
    inner = blocks(n, loud_bodies[:1] + blank_bodies[:1], blank_bodies + loud_bodies[1:])
    if small:
        inner = [st for st in inner if st[0] in ("for", "if", "case", "unless") and (st[-1] is not None or (st[0] == "unless" and st[3]))]
    outer = blocks(n, [(st,) for st in inner], blank_bodies[:1])
    if small:
        outer = [st for st in outer if st[0] in ("if", "for", "case", "with", "unless")]
    return tuple(outer)


def liquid_wrap(stmts: list[tuple]) -> list[tuple]:
    return [("liquid", (s,)) for s in stmts if line_form_ok(s)]


@lru_cache(maxsize=8)
def level0(seed: int = 0) -> tuple[tuple, ...]:
    return tuple(leaves(Names(seed)))


@lru_cache(maxsize=8)
def level1(seed: int = 0) -> tuple[tuple, ...]:
    n = Names(seed)
    l0 = level0(seed)
    bodies = [(s,) for s in l0]
    return tuple(blocks(n, bodies))


@lru_cache(maxsize=8)
def level1_small(seed: int = 0) -> tuple[tuple, ...]:
    """A reduced set of one-level blocks (one per constructor x a few representative bodies)."""
    n = Names(seed)
    l0 = level0(seed)
    pick = [(l0[0],), (l0[2], l0[8]), (l0[14],), (l0[22],), (l0[18],), (l0[33],), (l0[27],), (l0[1], l0[8]), (l0[13], l0[24])]
    return tuple(blocks(n, pick))


@lru_cache(maxsize=8)
def ops(seed: int = 0) -> tuple[tuple, ...]:
    """Operation alphabet for composition: leaves, one-level blocks, liquid-tag forms."""
    l0 = list(level0(seed))
    l1 = list(level1(seed))
    return tuple(l0 + l1 + liquid_wrap(l0[:24]))


def programs_len2(pool: tuple[tuple, ...]) -> int:
    return len(pool) + len(pool) ** 2


def program_at(pool: tuple[tuple, ...], idx: int) -> tuple:
    """idx < len(pool): single statement; else pair (row-major)."""
    m = len(pool)
    if idx < m:
        return (pool[idx],)
    idx -= m
    return (pool[idx // m], pool[idx % m])


def loader_sources(seed: int = 0, lay: Layout | None = None) -> dict[str, str]:
    n = Names(seed)
    return {name: print_program(body, lay or Layout()) for name, body in partials(n).items()}


def printed_corpus(tier: str) -> list[str]:
    """Printed programs for source-level checks (C17, C02): singles of ops under three layouts."""
    out: list[str] = []
    for seed in (0, 1):
        pool = ops(seed)
        for st in pool:
            for style in ("canon", "tight", "loose"):
                out.append(print_program((st,), Layout(style=style)))
        l0 = level0(seed)
        for x, y in itertools.product(l0[:12], l0[:12]):
            out.append(print_program((x, y), Layout(markers=("-", "", "~", "+"))))
    return out


# ------------------------------------------------------------------ wide expression grammar (C12, C20, C02)

STRINGS = [
    "", "a", "it's", 'say "hi"', "back\\slash", "new\nline", "tab\there", "${x}", "a${b", "é", "\U0001f600",
    "ctl\x1f", "bs\b", "ff\f", "cr\r", "del\x7f", "'\"", "{{ x }}", "{% y %}", "#}", " ", "￿", " ", "\\'",
]

NUMBERS = [0, 1, -1, 7, 2**31, 2**53 + 1, 10**20, -(10**20), 1.5, -2.5, 0.1, 1e16, 1e-7]


def wide_primitives(n: Names) -> list[tuple]:
    a, g, h, arr = n.a, n.g, n.h, n.arr
    prims: list[tuple] = [NIL, TRUE, FALSE, EMPTY, BLANK]
    prims += [("int", x) if isinstance(x, int) else ("float", x) for x in NUMBERS]
    prims += [("raw", s) for s in ("1e3", "2E+2", "1.5e2", "25e-1", "-3e2")]
    prims += [S(s) for s in STRINGS]
    prims += [
        V(g), V(h, "a"), V(arr, 0), V(arr, -1), V(h, ("q", "a")), V(h, ("q", "a b")), V(h, ("q", "it's")),
        V(arr, ("p", V(g))), V(h, ("p", V(a))), V(arr, "first"), V(arr, "last"), V(arr, "size"), V(h, "size"),
        V(arr, 0, "a"), V(arr, ("q", "a"), "b", 0), V(arr, ("p", V(h, "a"))),
        ("range", I(1), I(3)), ("range", V(g), I(3)), ("range", I(1), V(h, "a")), ("range", S("1"), S("2")),
        ("tstr", (("lit", "x"), FL(V(g)), ("lit", "y"))),
        ("tstr", (FL(V(g), flt("upcase")),)),
        ("tstr", (("lit", "it's ${"), FL(S("in'ner")), ("lit", '"q"'))),
        ("tstr", (FL(("tstr", (("lit", "n"), FL(V(g)))), flt("append", S("!"))), ("lit", "z"))),
        ("raw", "['a b'].c"), ("raw", "['" + g + "'].size"), ("raw", "['a\\nb']"), ("raw", h + "['x\\ny'].z"), ("raw", h + '["q\\"q"]'),
    ]
    return prims


def wide_filters(n: Names) -> list[tuple]:
    """Filter chains (as tuples of filters) exercising every argument shape."""
    a, g, h = n.a, n.g, n.h
    x = "x"
    return [
        (),
        (flt("upcase"),),
        (flt("append", S("z")),),
        (flt("slice", I(1), I(2)),),
        (flt("slice", I(-2)),),
        (flt("replace", S("a"), S("b")),),
        (flt("default", S("d"), ("kw", "allow_false", TRUE)),),
        (flt("default", V(g)), flt("append", V(h, "a"))),
        (flt("map", S("a")),),
        (flt("map", ("lambda", (x,), V(x, "a"))),),
        (flt("where", S("a"), I(1)),),
        (flt("where", ("lambda", (x,), ("cmp", "==", V(x, "a"), I(1)))), flt("map", S("a")), flt("join", S("-"))),
        (flt("find", ("lambda", (x, "idx"), ("and", ("cmp", ">", V("idx"), I(0)), V(x)))),),
        (flt("where", ("lambda", (x,), ("and", ("paren", ("or", V(x, "a"), V(x, "z"))), V(x, "k")))), flt("size")),
        (flt("where", ("lambda", (x,), ("or", V(x, "z"), ("paren", ("and", V(x, "a"), ("paren", ("not", V(x, "k")))))))), flt("size")),
        (flt("sort", ("lambda", (x,), V(x, "a"))), flt("first")),
        (flt("join", S(", ")),),
        (flt("json"),),
        (flt("split", S(",")), flt("last")),
        (flt("plus", ("float", 1.5)), flt("times", ("int", -2))),
        (flt("truncate", I(3), S("")),),
        (flt("concat", V(g)),),
        (flt("date", S("%Y")),),
    ]


def wide_exprs(n: Names, tier: str = "quick") -> list[tuple]:
    prims = wide_primitives(n)
    filters = wide_filters(n)
    a, g, h, arr = n.a, n.g, n.h, n.arr
    out: list[tuple] = []
    for p in prims:
        out.append(FL(p))
    bases = [V(g), V(arr), S("a,b"), I(3), NIL, V(h, "a"), ("range", I(1), I(3)), S("it's")]
    for base in bases:
        for fs in filters[1:]:
            out.append(FL(base, *fs))
    # array literals
    out += [
        FL(("array", (I(1), I(2), I(3)))),
        FL(("array", (S("a"), S("b c"), V(g))), flt("join", S("+"))),
        FL(("array", (V(g), NIL, TRUE, ("float", 1.5)))),
    ]
    # ternaries
    cs = conds(n)
    for c in (cs[0], cs[2], cs[5], cs[6], ("not", ("paren", ("or", V(g), V(h)))), ("cmp", "in", S("a"), V(arr))):
        out.append(("ternary", FL(V(a)), c, None, (), ()))
        out.append(("ternary", FL(S("y"), flt("upcase")), c, S("n"), (flt("append", S("!")),), ()))
        out.append(("ternary", FL(V(g), flt("default", I(0))), c, V(h), (), (flt("json"), flt("size"))))
        out.append(("ternary", FL(I(1)), c, NIL, (flt("default", S("d")), flt("upcase")), (flt("prepend", S(">")),)))
        # no else branch: the tail filters apply whichever way the condition goes
        out.append(("ternary", FL(V(a)), c, None, (), (flt("default", S("x")),)))
        out.append(("ternary", FL(V(g), flt("append", S("!"))), c, None, (), (flt("size"), flt("plus", V(g)))))
    # one-item array literals
    out += [FL(("array", (V(arr),))), FL(("array", (V(arr),)), flt("size")), FL(("array", (S("a"),)), flt("join", S("+")))]
    return out


def bool_exprs(n: Names) -> list[tuple]:
    a, g, h, arr = n.a, n.g, n.h, n.arr
    atoms = [TRUE, FALSE, NIL, I(0), I(1), S("a"), S(""), V(g), V(h), V(arr), EMPTY, BLANK]
    out: list[tuple] = list(atoms)
    cmps = ["==", "!=", "<>", "<", ">", "<=", ">=", "contains", "in"]
    for op in cmps:
        for l, r in ((V(g), I(1)), (V(g), V(h)), (V(arr), V(g)), (S("abc"), S("b")), (V(h), EMPTY), (NIL, V(g))):
            out.append(("cmp", op, l, r))
    for l, r in itertools.product((V(g), ("not", V(h)), ("cmp", "==", V(g), I(1))), repeat=2):
        out.append(("and", l, r))
        out.append(("or", l, r))
    out += [
        ("and", V(g), ("or", V(h), V(arr))),
        ("or", ("and", V(g), V(h)), V(arr)),
        ("and", ("paren", ("or", V(g), V(h))), V(arr)),
        ("not", ("paren", ("and", V(g), V(h)))),
        ("not", ("not", V(g))),
        ("or", ("not", V(g)), ("and", V(h), ("not", V(arr)))),
        ("cmp", "==", ("paren", ("cmp", "<", V(g), I(2))), TRUE),
        ("or", ("and", V(g), ("paren", ("not", V(h)))), V(arr)),
        ("and", ("or", V(g), ("paren", ("not", V(h)))), V(arr)),
        ("cmp", "==", ("paren", ("not", V(g))), ("paren", ("not", V(h)))),
        ("or", ("paren", ("and", ("paren", ("not", V(g))), V(h))), ("paren", ("not", ("paren", ("or", V(arr), V(g)))))),
    ]
    return out


def expr_sites(n: Names, e: tuple, *, shopify: bool = False) -> list[tuple]:
    """Programs that put the (filtered / ternary) expression `e` in every tag position that takes one."""
    a, i = n.a, n.i
    sites: list[tuple] = [
        (("out", e),),
        (("echo", e),),
        (("assign", a, e), ("out", V(a))),
        (("liquid", (("assign", a, e), ("echo", V(a)))),),
    ]
    return sites


def prim_sites(n: Names, p: tuple, *, shopify: bool = False) -> list[tuple]:
    """Programs that put the primitive `p` in every tag position that takes a primitive."""
    a, b, i, g, m, pn = n.a, n.b, n.i, n.g, n.m, n.p
    sites: list[tuple] = [
        (("if", ((("cmp", "==", p, V(g)), (("text", "y"),)),), (("text", "n"),)),),
        (("if", ((p, (("text", "y"),)),), None),),
        (("unless", ("cmp", "contains", V(g), p), (("text", "y"),), (), None),),
        (("for", i, p, (), (("out", V(i)),), (("text", "none"),)),),
        (("for", i, V(n.arr), (("limit", p),), (("out", V(i)),), None),),
        (("for", i, V(n.arr), (("offset", p),), (("out", V(i)),), None),),
        (("case", p, (((I(1), p), (("text", "w"),)),), (("text", "e"),)),),
        (("case", V(g), (((p,), (("text", "w"),)),), None),),
        # (two separate cycle tags whose items contain an interpolated template string do not share their position:
        #  the engine keys cycles by expression identity there; the documentation does not define it - not generated)
        *([] if p[0] == "tstr" else [(("cycle", None, (p, I(2))), ("cycle", None, (p, I(2))))]),
        (("with", ((a, p),), (("out", V(a)),)),),
        (("include", S(pn), p, b, False, ()),),
        (("include", S(pn), None, None, False, ((a, p),)),),
        (("render", pn, p, b, False, ((a, p),)),),
        (("render", pn, p, b, True, ()),),
        (("macro", m, (("x", p),), (("out", V("x")),)), ("call", m, (), ()), ("call", m, (p,), ()), ("call", m, (), (("x", p),))),
        (("out", FL(V(g), flt("default", p))),),
        (("out", FL(V(g), flt("default", ("kw", "allow_false", p)))),),
        (("out", ("ternary", FL(I(1)), TRUE, p, (), ())),),
        (("out", ("ternary", FL(I(1)), FALSE, p, (), ())),),
        (("out", FL(("array", (p, p)), flt("join", S("|")))),),
    ]
    if p[0] in ("int", "var", "str") or (p[0] == "raw" and "." not in p[1] and "-" not in p[1][1:]):
        sites.append((("for", i, ("range", p, I(3)), (), (("out", V(i)),), None),))
    if shopify:
        sites.append((("tablerow", i, p, (("cols", I(2)),), (("out", V(i)),)),))
        sites.append((("tablerow", i, V(n.arr), (("cols", p), ("limit", p)), (("out", V(i)),)),))
    return sites
