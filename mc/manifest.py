"""Regenerate MANIFEST.json from the check modules that exist (python -m mc.manifest)."""

from __future__ import annotations

import importlib
import json
from pathlib import Path

ROOT = Path(__file__).resolve().parent.parent

ALL = [f"C{i:02d}" for i in range(1, 21)]

BASELINE_CMD = (
    "cd /repo && env -u JG_RP_PYTHON_LIQUID2_VERIF /venv/bin/python -m pytest -ra -q -p no:cacheprovider "
    "--timeout=900 --continue-on-collection-errors --junitxml=/tmp/verif_baseline_off.junit.xml"
)


def build() -> dict:
    checks = []
    na = []
    engines: dict[str, list[str]] = {}
    for pid in ALL:
        try:
            mod = importlib.import_module(f"checks.{pid.lower()}")
        except ModuleNotFoundError:
            na.append({"property_id": pid, "reason": "check not built yet in this round (planned; see DESIGN.md section 4)"})
            continue
        if getattr(mod, "NOT_APPLICABLE", None):
            na.append({"property_id": pid, "reason": mod.NOT_APPLICABLE})
            continue
        for e in getattr(mod, "ENGINES", ["E1 spaces"]):
            engines.setdefault(e, []).append(pid)
        checks.append(
            {
                "property_id": pid,
                "quick_cmd": f"./check {pid} quick",
                "thorough_cmd": f"./check {pid} thorough",
                "evidence_file": f"/verif/evidence/{pid}.json",
                "replay_cmd_template": f"./check {pid} --replay {{path}}",
                "engine": ", ".join(getattr(mod, "ENGINES", ["E1 spaces"])),
                "level_claimed": {
                    "category": mod.LEVEL,
                    "text": mod.LEVEL_TEXT,
                    "design_ref": getattr(mod, "DESIGN_REF", f"DESIGN.md section 4, {pid}"),
                },
                "level_note": mod.LEVEL_NOTE,
                "technique": mod.TECHNIQUE,
            }
        )
    return {
        "version": 1,
        "setup_cmd": "cd /verif && /venv/bin/python -m mc.setup",
        "hooks": {
            "guard": "JG_RP_PYTHON_LIQUID2_VERIF",
            "enable": "no source hooks: every seam is reached from outside (subclassing RenderContext, mapping objects as data, "
            "module attribute replacement inside the harness process); ./check exports JG_RP_PYTHON_LIQUID2_VERIF=1 only for uniformity",
            "baseline_off_cmd": BASELINE_CMD,
            "source_commits": [],
            "add_only": True,
        },
        "engines": [
            {"name": k, "path": "/verif/mc", "serves_properties": v, "kind_free_text": "hand-written bounded-exhaustive explorer (pure Python)"}
            for k, v in sorted(engines.items())
        ],
        "checks": checks,
        "not_applicable": na,
        "notes": "All checks are bounded-exhaustive explorations of the real implementation run from /repo's working tree "
        "(editable install). VERIF_SEED only relabels alphabets; nothing is sampled. Genuine defects found are repaired by "
        "'fix:' commits in /repo or listed in /verif/known_findings.json.",
    }


def main() -> None:
    m = build()
    (ROOT / "MANIFEST.json").write_text(json.dumps(m, indent=1) + "\n")
    print(f"MANIFEST.json: {len(m['checks'])} checks, {len(m['not_applicable'])} not_applicable")


if __name__ == "__main__":
    main()
