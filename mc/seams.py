"""Seams the harness owns: async drops, fault-injecting mappings, clock, file-system sandbox, catalog double."""

from __future__ import annotations

import asyncio
import atexit
import os
import shutil
import tempfile
from collections.abc import Mapping
from collections.abc import Sequence
from typing import Any
from typing import Iterator


# ------------------------------------------------------------------ lazily awaited drops


def adrop(value: Any, yields: int = 1) -> Any:
    """Wrap nested dicts/lists so that item access has an async twin that yields `yields` times first."""
    if isinstance(value, dict):
        return AMap({k: adrop(v, yields) for k, v in value.items()}, yields)
    if isinstance(value, list):
        return ASeq([adrop(v, yields) for v in value], yields)
    return value


class AMap(Mapping):  # type: ignore[type-arg]
    def __init__(self, d: dict[str, Any], yields: int = 1) -> None:
        self._d = d
        self._yields = yields

    def __getitem__(self, k: Any) -> Any:
        return self._d[k]

    async def __getitem_async__(self, k: Any) -> Any:
        for _ in range(self._yields):
            await asyncio.sleep(0)
        return self._d[k]

    def __len__(self) -> int:
        return len(self._d)

    def __iter__(self) -> Iterator[Any]:
        return iter(self._d)

    def __repr__(self) -> str:
        return f"AMap({self._d!r})"


class ASeq(Sequence):  # type: ignore[type-arg]
    def __init__(self, items: list[Any], yields: int = 1) -> None:
        self._l = items
        self._yields = yields

    def __getitem__(self, i: Any) -> Any:
        return self._l[i]

    async def __getitem_async__(self, i: Any) -> Any:
        for _ in range(self._yields):
            await asyncio.sleep(0)
        return self._l[i]

    def __len__(self) -> int:
        return len(self._l)

    def __repr__(self) -> str:
        return f"ASeq({self._l!r})"


def wrap_data(d: dict[str, Any], yields: int = 1) -> dict[str, Any]:
    return {k: adrop(v, yields) for k, v in d.items()}


# ------------------------------------------------------------------ file-system sandbox

_SANDBOXES: list[tuple[int, str]] = []


def _cleanup() -> None:
    for pid, d in _SANDBOXES:
        if pid == os.getpid():
            shutil.rmtree(d, ignore_errors=True)


atexit.register(_cleanup)


def sandbox_base() -> str:
    """One directory per check run, made by the parent process before the workers are forked and removed when the
    parent exits: pool workers are terminated without running their exit handlers, so what they create goes here."""
    base = os.environ.get("VERIF_SANDBOX_BASE")
    if not base or not os.path.isdir(base):
        base = tempfile.mkdtemp(prefix="verif_run_")
        os.environ["VERIF_SANDBOX_BASE"] = base
        _SANDBOXES.append((os.getpid(), base))
    return base


def sandbox(prefix: str = "verif_mc_") -> str:
    """A private temporary directory removed at process exit, and with the run's base directory at the latest."""
    d = tempfile.mkdtemp(prefix=prefix, dir=sandbox_base())
    _SANDBOXES.append((os.getpid(), d))
    return d


def write_tree(root: str, files: dict[str, str]) -> None:
    for name, text in files.items():
        p = os.path.join(root, name)
        os.makedirs(os.path.dirname(p), exist_ok=True)
        with open(p, "w", encoding="utf-8") as fd:
            fd.write(text)
