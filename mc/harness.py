"""Harness: sharding over a process pool, violations, known findings, evidence.

A check module (checks/cNN.py) exposes

    ID         = "C17"
    LEVEL      = "exploration" | "model_checking" | ...
    RULE       = "how cases are enumerated and what makes one non-trivial"
    ASSUMPTIONS = [...]
    def plan(tier, seed) -> (shards, meta)     shards: list of picklable objects
    def run_shard(shard) -> ShardResult
    def replay(case) -> list[violation dicts]   re-run one recorded case through the same oracle

Everything is enumerated exhaustively; `seed` only relabels alphabets.
"""

from __future__ import annotations

import hashlib
import json
import multiprocessing as mp
import os
import signal
import sys
import time
import traceback
from dataclasses import dataclass
from dataclasses import field
from pathlib import Path
from typing import Any

ROOT = Path(__file__).resolve().parent.parent
EVIDENCE_DIR = ROOT / "evidence"
REPLAY_DIR = ROOT / "replays"
KNOWN_FINDINGS = ROOT / "known_findings.json"

MAX_REPORTED = 20
NWORKERS = int(os.environ.get("VERIF_WORKERS", "0")) or min(16, os.cpu_count() or 1)


def h64(obj: Any) -> int:
    """Stable 64-bit hash of a JSON-like object / string (no PYTHONHASHSEED dependence)."""
    if not isinstance(obj, (str, bytes)):
        obj = json.dumps(obj, sort_keys=True, default=repr, ensure_ascii=True)
    if isinstance(obj, str):
        obj = obj.encode("utf-8", "surrogatepass")
    return int.from_bytes(hashlib.blake2b(obj, digest_size=8).digest(), "big")


@dataclass
class ShardResult:
    evaluations: int = 0  # implementation executions / cases run
    cases: int = 0  # cases of the enumerated space consumed (for exhaustive accounting)
    nontrivial: set[int] = field(default_factory=set)  # h64 of distinct non-trivial cases
    outcomes: set[int] = field(default_factory=set)  # h64 of distinct observed outcomes
    states: set[int] = field(default_factory=set)  # h64 of distinct canonical states
    transitions: int = 0
    traces_validated: int = 0
    violations: list[dict[str, Any]] = field(default_factory=list)
    samples: list[Any] = field(default_factory=list)
    counters: dict[str, int] = field(default_factory=dict)
    capped: bool = False

    def count(self, key: str, n: int = 1) -> None:
        self.counters[key] = self.counters.get(key, 0) + n

    def violation(
        self,
        sig: str,
        case: Any,
        expected: Any,
        observed: Any,
        repro: str | None = None,
    ) -> None:
        """Record a violation. `sig` names the *kind* of failure precisely enough that
        a known finding can be matched against it; `case` must be replayable."""
        # keep at most a few per signature per shard: one root cause hits many cases
        n = sum(1 for v in self.violations if v["sig"] == sig)
        self.count("violations_total")
        if n < 3:
            self.violations.append(
                {
                    "sig": sig,
                    "case": case,
                    "expected": expected,
                    "observed": observed,
                    "repro": repro,
                }
            )


def _worker_init() -> None:
    signal.signal(signal.SIGINT, signal.SIG_IGN)
    sys.setrecursionlimit(3000)


def _run_one(args: tuple[str, Any]) -> ShardResult | tuple[str, str]:
    modname, shard = args
    try:
        mod = sys.modules.get(modname) or __import__(modname, fromlist=["x"])
        r = mod.run_shard(shard)
        for v in r.violations:
            v["_shard"] = shard  # lets the parent re-run the whole shard if the single case does not reproduce alone
        return r
    except BaseException:  # noqa: BLE001
        return ("INFRA", traceback.format_exc())


class TimeBudget(Exception):
    pass


def cpu_budget(seconds: float):
    """Context manager: raise TimeBudget inside the block after `seconds` of CPU time of this process (user + system).

    CPU time, not wall time: a machine busy with other work must not turn into a time-out (the property is about the
    work a render does, and nothing in the library sleeps)."""

    class _B:
        def __enter__(self_inner):
            def _h(signum, frame):
                raise TimeBudget()

            self_inner.old = signal.signal(signal.SIGPROF, _h)
            signal.setitimer(signal.ITIMER_PROF, seconds)

        def __exit__(self_inner, *exc):
            signal.setitimer(signal.ITIMER_PROF, 0)
            signal.signal(signal.SIGPROF, self_inner.old)
            return False

    return _B()


def load_known_findings(prop: str) -> tuple[list[dict[str, Any]], list[dict[str, Any]]]:
    if not KNOWN_FINDINGS.exists():
        return [], []
    data = json.loads(KNOWN_FINDINGS.read_text())
    open_ = [f for f in data.get("findings", []) if f["property"] == prop]
    fixed = [f for f in data.get("fixed", []) if f["property"] == prop]
    return open_, fixed


def _write_replay(prop: str, v: dict[str, Any]) -> Path:
    d = REPLAY_DIR / prop
    d.mkdir(parents=True, exist_ok=True)
    name = f"{h64([v['sig'], v['case']]):016x}"
    p = d / f"{name}.json"
    p.write_text(
        json.dumps(
            {
                "property": prop,
                "sig": v["sig"],
                "case": v["case"],
                "expected": v["expected"],
                "observed": v["observed"],
            },
            indent=1,
            default=repr,
            ensure_ascii=True,
        )
    )
    if v.get("repro"):
        (d / f"{name}.py").write_text(v["repro"])
    return p


def run_check(mod: Any, tier: str, seed: int) -> int:
    t0 = time.time()
    prop = mod.ID
    from mc import seams

    # (a run stopped by `timeout` or `kill` still removes its scratch directories: SIGTERM becomes an ordinary exit)
    signal.signal(signal.SIGTERM, lambda *_a: sys.exit(143))
    os.environ.pop("VERIF_SANDBOX_BASE", None)
    seams.sandbox_base()  # before the fork: workers create their scratch directories inside it
    shards, meta = mod.plan(tier, seed)
    modname = mod.__name__
    agg = ShardResult()
    infra: list[str] = []
    nshards = len(shards)
    if NWORKERS <= 1 or nshards <= 1:
        _worker_init_main = None
        results = (_run_one((modname, s)) for s in shards)
        pool = None
    else:
        ctx = mp.get_context("fork")
        pool = ctx.Pool(min(NWORKERS, nshards), initializer=_worker_init)
        results = pool.imap_unordered(_run_one, [(modname, s) for s in shards], chunksize=1)
    try:
        for r in results:
            if isinstance(r, tuple):
                infra.append(r[1])
                continue
            agg.evaluations += r.evaluations
            agg.cases += r.cases
            agg.nontrivial |= r.nontrivial
            agg.outcomes |= r.outcomes
            agg.states |= r.states
            agg.transitions += r.transitions
            agg.traces_validated += r.traces_validated
            agg.violations.extend(r.violations)
            if len(agg.samples) < 12:
                agg.samples.extend(r.samples[: 12 - len(agg.samples)])
            for k, n in r.counters.items():
                agg.counters[k] = agg.counters.get(k, 0) + n
            agg.capped = agg.capped or r.capped
    finally:
        if pool is not None:
            pool.terminate()
            pool.join()

    if infra:
        sys.stdout.write("INFRA-ERROR in worker:\n" + infra[0] + "\n")
        return 2

    # ---- violations: known findings vs. new
    known, _fixed = load_known_findings(prop)
    known_by_sig = {f["sig"]: f for f in known}
    by_sig: dict[str, list[dict[str, Any]]] = {}
    for v in agg.violations:
        by_sig.setdefault(v["sig"], []).append(v)
    new_sigs = sorted(s for s in by_sig if s not in known_by_sig)
    hit_known = sorted(s for s in by_sig if s in known_by_sig)
    for s in hit_known:
        f = known_by_sig[s]
        print(f"KNOWN-FINDING: property={prop} {f['what']}")
    exit_code = 0
    reported = 0
    unreproduced: list[tuple[str, dict[str, Any]]] = []
    for s in new_sigs:
        vs = sorted(by_sig[s], key=lambda v: len(json.dumps(v["case"], default=repr)))
        v = vs[0]
        # determinism: the same case must fail the same way when replayed
        try:
            again = mod.replay(v["case"])
        except Exception:  # noqa: BLE001
            sys.stdout.write("INFRA-ERROR while replaying a violation:\n" + traceback.format_exc())
            return 2
        if not any(a["sig"] == s for a in again):
            # The case does not fail alone. Either nondeterminism leaked into the harness, or the implementation keeps
            # state between cases (a module-level memo, a class attribute) and the failure needs the cases before it.
            # Decide by re-running the whole shard, in this process, twice: a history-dependent violation fails both times.
            shard = v.get("_shard")
            rerun = []
            if shard is not None:
                for _ in range(2):
                    try:
                        rerun.append(any(x["sig"] == s for x in mod.run_shard(shard).violations))
                    except Exception:  # noqa: BLE001
                        rerun.append(False)
            if not (rerun and all(rerun)):
                # Not reproducible from this case or its shard alone. If state kept by the implementation between
                # shards caused it, another violation of this run is reproducible and names the culprit: report those,
                # mention this one. If nothing at all reproduces, the harness itself is at fault.
                unreproduced.append((s, v))
                continue
            v = dict(v)
            v["case"] = {"replay_shard": list(shard) if isinstance(shard, tuple) else shard, "tier": tier, "failing_case": v["case"],
                         "note": "history-dependent: the case holds when run alone and fails after the cases that precede it in this shard"}
        if reported < MAX_REPORTED:
            p = _write_replay(prop, v)
            print(f"VIOLATION property={prop} replay={p}")
            print(f"  sig: {s}")
            print(f"  case: {json.dumps(v['case'], default=repr, ensure_ascii=True)[:600]}")
            print(f"  expected: {json.dumps(v['expected'], default=repr, ensure_ascii=True)[:300]}")
            print(f"  observed: {json.dumps(v['observed'], default=repr, ensure_ascii=True)[:300]}")
            reported += 1
        exit_code = 1

    if unreproduced:
        if exit_code == 0:
            s, v = unreproduced[0]
            sys.stdout.write(
                f"INFRA-ERROR: violation {s!r} did not reproduce on replay (nondeterminism leak)\n"
                + json.dumps({k: x for k, x in v.items() if k != "_shard"}, default=repr)[:2000]
                + "\n"
            )
            return 2
        for s, _v in unreproduced[:5]:
            print(f"NOTE: {s} was also observed but fails only after other cases ran in the same process (see the reproducible violations above)")

    wall = time.time() - t0
    exhaustive = (not agg.capped) and bool(meta.get("exhaustive", True))
    if "space_size" in meta and meta["space_size"] is not None:
        exhaustive = exhaustive and agg.cases == meta["space_size"]
    coverage: dict[str, Any] = {
        "evaluations": agg.evaluations,
        "distinct_nontrivial": len(agg.nontrivial),
        "rule": mod.RULE,
        "samples": agg.samples[:12] or ["<none>"],
        "states": max(len(agg.states), 1) if agg.states else max(len(agg.nontrivial), 1),
        "transitions": max(agg.transitions or agg.evaluations, 1),
        "traces_validated_against_impl": agg.traces_validated or agg.evaluations,
        "exhaustive": exhaustive,
        "cases_enumerated": agg.cases,
        "space_size": meta.get("space_size"),
        "distinct_outcomes": len(agg.outcomes),
        "bounds": meta.get("bounds", {}),
        "subspaces": meta.get("subspaces", {}),
        "counters": dict(sorted(agg.counters.items())),
        "shards": nshards,
        "workers": NWORKERS,
        "known_findings_hit": hit_known,
        "new_violation_signatures": new_sigs[:50],
    }
    if agg.capped:
        coverage["cap_hit"] = True
    ev = {
        "property_id": prop,
        "tier": tier,
        "seed": seed,
        "level": mod.LEVEL,
        "coverage": coverage,
        "assumptions": list(getattr(mod, "ASSUMPTIONS", [])),
        "wall_s": round(wall, 3),
        "violations": len(new_sigs),
    }
    EVIDENCE_DIR.mkdir(exist_ok=True)
    (EVIDENCE_DIR / f"{prop}.json").write_text(
        json.dumps(ev, indent=1, default=repr, ensure_ascii=True) + "\n"
    )
    print(
        f"{prop} {tier} seed={seed}: cases={agg.cases} evaluations={agg.evaluations} "
        f"nontrivial={len(agg.nontrivial)} outcomes={len(agg.outcomes)} states={len(agg.states)} "
        f"transitions={agg.transitions} exhaustive={exhaustive} known={len(hit_known)} "
        f"new_violations={len(new_sigs)} wall={wall:.1f}s"
    )
    return exit_code


def chunks(n: int, k: int) -> list[tuple[int, int]]:
    """Partition range(n) into ~k contiguous [lo, hi) chunks."""
    if n <= 0:
        return []
    k = max(1, min(k, n))
    step = -(-n // k)
    return [(lo, min(lo + step, n)) for lo in range(0, n, step)]
