"""setup_cmd: offline self-check of the framework (imports, known findings file, model self-test)."""

from __future__ import annotations

import importlib
import json
import sys
from pathlib import Path

ROOT = Path(__file__).resolve().parent.parent


def main() -> int:
    import liquid2  # noqa: F401  (the editable install of /repo must be importable)

    kf = json.loads((ROOT / "known_findings.json").read_text())
    for f in kf.get("findings", []):
        assert {"property", "sig", "what"} <= set(f), f"bad known finding {f}"
    for f in kf.get("fixed", []):
        assert f["line"].startswith(f"fixed: property={f['property']} "), f
    n = 0
    for p in sorted((ROOT / "checks").glob("c[0-9][0-9].py")):
        mod = importlib.import_module(f"checks.{p.stem}")
        for attr in ("ID", "LEVEL", "RULE", "LEVEL_TEXT", "LEVEL_NOTE", "TECHNIQUE", "plan", "run_shard", "replay"):
            assert hasattr(mod, attr), f"{p.stem} lacks {attr}"
        n += 1
    try:
        from mc import refmodel

        refmodel.self_test()
        print("reference model self-test: ok")
    except ImportError:
        pass
    (ROOT / "evidence").mkdir(exist_ok=True)
    print(f"setup ok: {n} check modules, {len(kf.get('findings', []))} known findings, liquid2 from {liquid2.__file__}")
    return 0


if __name__ == "__main__":
    sys.exit(main())
