"""E4 — a virtual asyncio event loop owned by the harness, and stateless DFS over its schedules.

`VLoop` subclasses asyncio.BaseEventLoop without a selector: time is virtual, run_in_executor runs the
function inline as its own scheduling step, and the ready queue is popped *by the harness*: whenever more
than one handle is ready a choice point is recorded and the chooser decides which runs next. Tasks only
switch at awaits, so enumerating every choice sequence enumerates every interleaving of the tasks at
their await points.

`explore(run)` is the stateless DFS of the guidance notes: run with a prefix of choices, take choice 0
afterwards, then for every later choice point branch to each alternative. A prefix that does not fit
(choice index >= number of ready handles) is a hard error: it means nondeterminism leaked in.
"""

from __future__ import annotations

import asyncio
import heapq
from asyncio import events
from typing import Any
from typing import Awaitable
from typing import Callable
from typing import Iterable


class ScheduleError(Exception):
    """Replay diverged or the loop dead-locked."""


class VLoop(asyncio.BaseEventLoop):
    def __init__(self, prefix: Iterable[int] = ()) -> None:
        super().__init__()
        self._vtime = 0.0
        self.prefix = list(prefix)
        self.choices: list[int] = []  # choice taken at each choice point
        self.options: list[int] = []  # number of ready handles at each choice point
        self.steps = 0
        self.exc_log: list[dict[str, Any]] = []
        self.set_exception_handler(lambda loop, ctx: self.exc_log.append(ctx))

    # ---- the parts BaseEventLoop leaves to subclasses
    def time(self) -> float:
        return self._vtime

    def _process_events(self, event_list: Any) -> None:  # pragma: no cover
        pass

    def _write_to_self(self) -> None:
        pass

    def run_in_executor(self, executor: Any, func: Callable[..., Any], *args: Any):  # type: ignore[override]
        fut = self.create_future()

        def _run() -> None:
            if fut.cancelled():
                return
            try:
                fut.set_result(func(*args))
            except BaseException as e:  # noqa: BLE001
                fut.set_exception(e)

        self.call_soon(_run)
        return fut

    # ---- harness-owned stepping
    def _choose(self, n: int) -> int:
        i = len(self.choices)
        c = self.prefix[i] if i < len(self.prefix) else 0
        if c >= n:
            raise ScheduleError(f"replay diverged at choice point {i}: choice {c} of {n}")
        self.choices.append(c)
        self.options.append(n)
        return c

    def step(self) -> bool:
        """Run one ready handle. Returns False when nothing is ready or scheduled."""
        ready = self._ready  # type: ignore[attr-defined]
        sched = self._scheduled  # type: ignore[attr-defined]
        while not ready:
            if not sched:
                return False
            h = heapq.heappop(sched)
            h._scheduled = False
            if h._cancelled:
                continue
            self._vtime = max(self._vtime, h._when)
            ready.append(h)
        live = [i for i, h in enumerate(ready) if not h._cancelled]
        if not live:
            ready.clear()
            return True
        k = self._choose(len(live)) if len(live) > 1 else 0
        idx = live[k]
        handle = ready[idx]
        del ready[idx]
        self.steps += 1
        handle._run()
        return True

    def run_all(self, coros: list[Awaitable[Any]], max_steps: int = 100000) -> list[tuple[str, Any]]:
        """Run the coroutines as tasks to completion under this loop's schedule.

        Returns per task ('ok', result) | ('exc', exception) | ('cancelled', None)."""
        old = events._get_running_loop()
        events._set_running_loop(self)
        try:
            tasks = [self.create_task(c) for c in coros]
            while not all(t.done() for t in tasks):
                if self.steps > max_steps:
                    raise ScheduleError("horizon exceeded")
                if not self.step():
                    raise ScheduleError("deadlock: no ready handle and tasks not done")
            # drain callbacks of finished tasks deterministically
            guard = 0
            while self._ready and guard < 1000:  # type: ignore[attr-defined]
                h = self._ready.popleft()  # type: ignore[attr-defined]
                if not h._cancelled:
                    h._run()
                guard += 1
            out: list[tuple[str, Any]] = []
            for t in tasks:
                if t.cancelled():
                    out.append(("cancelled", None))
                elif t.exception() is not None:
                    out.append(("exc", t.exception()))
                else:
                    out.append(("ok", t.result()))
            return out
        finally:
            events._set_running_loop(old)
            self.close()


def run_solo(coro: Awaitable[Any]) -> tuple[str, Any]:
    """Run one coroutine alone on a fresh virtual loop."""
    return VLoop().run_all([coro])[0]


def explore(
    run: Callable[[VLoop], Any],
    *,
    max_runs: int = 200000,
    on_run: Callable[[VLoop, Any], None] | None = None,
) -> dict[str, Any]:
    """Stateless DFS over all schedules. `run(loop)` builds fresh objects and calls loop.run_all(...)."""
    stack: list[list[int]] = [[]]
    runs = 0
    points = 0
    capped = False
    while stack:
        prefix = stack.pop()
        loop = VLoop(prefix)
        result = run(loop)
        runs += 1
        points += len(loop.choices)
        if on_run is not None:
            on_run(loop, result)
        for i in range(len(prefix), len(loop.choices)):
            for alt in range(1, loop.options[i]):
                stack.append(loop.choices[:i] + [alt])
        if runs >= max_runs:
            capped = bool(stack)
            break
    return {"schedules": runs, "choice_points": points, "capped": capped}
