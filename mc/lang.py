"""Mini-AST of Liquid (plain tuples) and a printer with layout parameters (E1).

Expressions
    ("nil",) ("true",) ("false",) ("empty",) ("blank",) ("int", n) ("float", x) ("str", s)
    ("var", root, (seg, ...))     seg = ("k", name) .name | ("q", name) ['name'] | ("i", n) [n] | ("p", var) [var]
                                       | ("si", n) .n (shorthand index)
    ("range", lo, hi)
    ("array", (e, ...))
    ("tstr", (part, ...))         part = ("lit", s) | expression (usually "filtered")
    ("filtered", base, (filter, ...))      filter = (name, (arg, ...));  arg = expr | ("kw", k, expr) | ("lambda", (p,..), bexpr)
    ("ternary", filtered, cond, alt|None, (filter, ...), (tailfilter, ...))
    boolean: ("not", e) ("and", a, b) ("or", a, b) ("cmp", op, a, b) ("paren", e)    op in == != <> < > <= >= contains in

Statements
    ("text", s) ("out", e) ("echo", e) ("assign", name, e) ("capture", name, body)
    ("if", ((cond, body), ...), else|None) ("unless", cond, body, ((cond, body), ...), else|None)
    ("case", e, ((vals, body), ...), else|None)
    ("for", var, iterable, opts, body, else|None)     opts = tuple of ("limit", e) ("offset", e | "continue") ("reversed",)
    ("tablerow", var, iterable, opts, body)           opts additionally ("cols", e)
    ("break",) ("continue",) ("increment", n) ("decrement", n) ("cycle", group|None, (e, ...))
    ("raw", text) ("comment", kind, text)   kind = "hash" | "inline" | "block"
    ("liquid", body) ("with", ((k, e), ...), body)
    ("macro", name, ((param, default|None), ...), body) ("call", name, (e, ...), ((k, e), ...))
    ("include", name_expr, var|None, alias|None, is_for, ((k, e), ...))
    ("render", name_str, var|None, alias|None, is_for, ((k, e), ...))
    ("extends", name) ("block", name, body, required)
    ("translate", ((k, e), ...), singular_body, plural_body|None)
A body is a tuple of statements.
"""

from __future__ import annotations

from typing import Any
from typing import Callable
from typing import Iterator

Expr = tuple
Stmt = tuple
Body = tuple

# ------------------------------------------------------------------ convenience constructors

NIL = ("nil",)
TRUE = ("true",)
FALSE = ("false",)
EMPTY = ("empty",)
BLANK = ("blank",)


def I(n: int) -> Expr:  # noqa: E743
    return ("int", n)


def F(x: float) -> Expr:
    return ("float", x)


def S(s: str) -> Expr:
    return ("str", s)


def V(root: str, *segs: Any) -> Expr:
    out = []
    for s in segs:
        if isinstance(s, tuple):
            out.append(s)
        elif isinstance(s, int):
            out.append(("i", s))
        else:
            out.append(("k", s))
    return ("var", root, tuple(out))


def FL(base: Expr, *filters: tuple) -> Expr:
    return ("filtered", base, tuple(filters))


def flt(name: str, *args: Any) -> tuple:
    return (name, tuple(args))


class Layout:
    """How the printer spells a program. Every choice is enumerable."""

    def __init__(
        self,
        style: str = "canon",
        quote: str = "'",
        markers: tuple[str, ...] | None = None,
        kwsep: str = ":",
        comment_between: str | None = None,
    ) -> None:
        self.style = style
        self.quote = quote
        self.markers = markers
        self.kwsep = kwsep
        self.comment_between = comment_between
        self._n = 0
        self.pieces: list[tuple] = []  # ("m", left_marker, right_marker) | ("t", uid) in source order

    def reset(self) -> None:
        self._n = 0
        self.pieces = []

    def wc(self) -> str:
        i = self._n
        self._n += 1
        if self.markers is None or i >= len(self.markers):
            return ""
        return self.markers[i]

    @property
    def positions(self) -> int:
        return self._n


# ------------------------------------------------------------------ expression printer

_ESC = {"\\": "\\\\", "\n": "\\n", "\r": "\\r", "\t": "\\t", "\b": "\\b", "\f": "\\f"}


def quote_string(s: str, q: str = "'", *, in_tstr: bool = False) -> str:
    out = []
    i = 0
    while i < len(s):
        ch = s[i]
        if ch in _ESC:
            out.append(_ESC[ch])
        elif ch == q:
            out.append("\\" + q)
        elif ch == "$" and i + 1 < len(s) and s[i + 1] == "{":
            out.append("\\$")
        elif ord(ch) < 0x20 or ord(ch) == 0x7F or ch in "  ":
            out.append(f"\\u{ord(ch):04x}")
        else:
            out.append(ch)
        i += 1
    body = "".join(out)
    return body if in_tstr else f"{q}{body}{q}"


def pexpr(e: Expr, lay: Layout) -> str:  # noqa: PLR0911, PLR0912
    k = e[0]
    if k == "nil":
        return "nil"
    if k == "true":
        return "true"
    if k == "false":
        return "false"
    if k == "empty":
        return "empty"
    if k == "blank":
        return "blank"
    if k == "int":
        return str(e[1])
    if k == "float":
        r = repr(e[1])
        if "e" in r and "." not in r:
            m, x = r.split("e")
            r = m + ".0e" + x  # '1e+16' would be an integer literal in Liquid
        return r
    if k == "str":
        return quote_string(e[1], lay.quote)
    if k == "var":
        buf = [e[1]]
        for seg in e[2]:
            if seg[0] == "k":
                buf.append("." + seg[1])
            elif seg[0] == "q":
                buf.append("[" + quote_string(seg[1], lay.quote) + "]")
            elif seg[0] == "i":
                buf.append(f"[{seg[1]}]")
            elif seg[0] == "si":
                buf.append(f".{seg[1]}")
            elif seg[0] == "p":
                buf.append("[" + pexpr(seg[1], lay) + "]")
        return "".join(buf)
    if k == "range":
        return f"({pexpr(e[1], lay)}..{pexpr(e[2], lay)})"
    if k == "array":
        sep = "," if lay.style == "tight" else ", "
        if len(e[1]) == 1:
            return pexpr(e[1][0], lay) + ","  # a one-item array literal is written with a trailing comma
        return sep.join(pexpr(x, lay) for x in e[1])
    if k == "tstr":
        buf = []
        for part in e[1]:
            if part[0] == "lit":
                buf.append(quote_string(part[1], lay.quote, in_tstr=True))
            else:
                inner = pexpr(part, lay)
                buf.append("${" + inner + "}" if lay.style == "tight" else "${ " + inner + " }")
        return lay.quote + "".join(buf) + lay.quote
    if k == "filtered":
        return pexpr(e[1], lay) + "".join(_pfilter(f, lay, " | " if lay.style != "tight" else "|") for f in e[2])
    if k == "ternary":
        _, left, cond, alt, afilters, tfilters = e
        s = f"{pexpr(left, lay)} if {pexpr(cond, lay)}"
        if alt is not None:
            s += f" else {pexpr(alt, lay)}"
            s += "".join(_pfilter(f, lay, " | ") for f in afilters)
        for i, f in enumerate(tfilters):
            s += _pfilter(f, lay, " || " if i == 0 else " | ")
        return s
    if k == "not":
        return "not " + pexpr(e[1], lay)
    if k in ("and", "or"):
        return f"{pexpr(e[1], lay)} {k} {pexpr(e[2], lay)}"
    if k == "cmp":
        op = e[1]
        if lay.style == "tight" and op in ("==", "!=", "<>", "<", ">", "<=", ">="):
            return f"{pexpr(e[2], lay)}{op}{pexpr(e[3], lay)}"
        return f"{pexpr(e[2], lay)} {op} {pexpr(e[3], lay)}"
    if k == "paren":
        return "(" + pexpr(e[1], lay) + ")"
    if k == "lambda":
        params = e[1]
        head = params[0] if len(params) == 1 else "(" + ", ".join(params) + ")"
        return f"{head} => {pexpr(e[2], lay)}"
    if k == "kw":
        return _pkw(e[1], e[2], lay)
    if k == "raw":  # escape hatch: literal expression text
        return e[1]
    raise ValueError(f"unknown expression {e!r}")


def _pkw(name: str, val: Expr, lay: Layout) -> str:
    if lay.style == "tight":
        return f"{name}{lay.kwsep}{pexpr(val, lay)}"
    return f"{name}{lay.kwsep} {pexpr(val, lay)}"


def _pfilter(f: tuple, lay: Layout, pipe: str) -> str:
    name, args = f
    if not args:
        return pipe + name
    sep = "," if lay.style == "tight" else ", "
    colon = ":" if lay.style == "tight" else ": "
    return pipe + name + colon + sep.join(pexpr(a, lay) for a in args)


# ------------------------------------------------------------------ statement printer


def _tag(lay: Layout, inner: str) -> str:
    l, r = lay.wc(), lay.wc()
    lay.pieces.append(("m", l, r))
    if lay.style == "tight":
        return "{%" + l + inner + r + "%}"
    if lay.style == "loose":
        return "{%" + l + "\n\t" + inner.replace(" ", "  ", 1) + "\n" + r + "%}"
    return "{%" + l + " " + inner + " " + r + "%}"


def _out(lay: Layout, inner: str) -> str:
    l, r = lay.wc(), lay.wc()
    lay.pieces.append(("m", l, r))
    if lay.style == "tight":
        return "{{" + l + inner + r + "}}"
    if lay.style == "loose":
        return "{{" + l + "\n  " + inner + "\t" + r + "}}"
    return "{{" + l + " " + inner + " " + r + "}}"


def _kwargs(kws: tuple, lay: Layout) -> str:
    sep = "," if lay.style == "tight" else ", "
    return sep.join(_pkw(k, v, lay) for k, v in kws)


def _loop_head(var: str, it: Expr, opts: tuple, lay: Layout) -> str:
    s = f"{var} in {pexpr(it, lay)}"
    for o in opts:
        if o[0] == "reversed":
            s += " reversed"
        elif o[0] == "offset" and o[1] == "continue":
            s += " offset:continue" if lay.style == "tight" else " offset: continue"
        else:
            s += " " + _pkw(o[0], o[1], lay)
    return s


def pbody(body: Body, lay: Layout) -> str:
    buf = []
    for i, st in enumerate(body):
        if i and lay.comment_between:
            buf.append(lay.comment_between)
        buf.append(pstmt(st, lay))
    return "".join(buf)


def pstmt(st: Stmt, lay: Layout) -> str:  # noqa: PLR0911, PLR0912, PLR0915
    k = st[0]
    if k == "text":
        if len(st) > 2:
            lay.pieces.append(("t", st[2]))
        return st[1]
    if k == "out":
        return _out(lay, pexpr(st[1], lay))
    if k == "echo":
        return _tag(lay, "echo " + pexpr(st[1], lay))
    if k == "assign":
        eq = "=" if lay.style == "tight" else " = "
        return _tag(lay, f"assign {st[1]}{eq}{pexpr(st[2], lay)}")
    if k == "capture":
        return _tag(lay, f"capture {st[1]}") + pbody(st[2], lay) + _tag(lay, "endcapture")
    if k == "if":
        buf = []
        for i, (cond, body) in enumerate(st[1]):
            buf.append(_tag(lay, ("if " if i == 0 else "elsif ") + pexpr(cond, lay)))
            buf.append(pbody(body, lay))
        if st[2] is not None:
            buf.append(_tag(lay, "else"))
            buf.append(pbody(st[2], lay))
        buf.append(_tag(lay, "endif"))
        return "".join(buf)
    if k == "unless":
        buf = [_tag(lay, "unless " + pexpr(st[1], lay)), pbody(st[2], lay)]
        for cond, body in st[3]:
            buf.append(_tag(lay, "elsif " + pexpr(cond, lay)))
            buf.append(pbody(body, lay))
        if st[4] is not None:
            buf.append(_tag(lay, "else"))
            buf.append(pbody(st[4], lay))
        buf.append(_tag(lay, "endunless"))
        return "".join(buf)
    if k == "case":
        buf = [_tag(lay, "case " + pexpr(st[1], lay))]
        sep = "," if lay.style == "tight" else ", "
        for vals, body in st[2]:
            buf.append(_tag(lay, "when " + sep.join(pexpr(v, lay) for v in vals)))
            buf.append(pbody(body, lay))
        if st[3] is not None:
            buf.append(_tag(lay, "else"))
            buf.append(pbody(st[3], lay))
        buf.append(_tag(lay, "endcase"))
        return "".join(buf)
    if k == "for":
        _, var, it, opts, body, els = st
        buf = [_tag(lay, "for " + _loop_head(var, it, opts, lay)), pbody(body, lay)]
        if els is not None:
            buf.append(_tag(lay, "else"))
            buf.append(pbody(els, lay))
        buf.append(_tag(lay, "endfor"))
        return "".join(buf)
    if k == "tablerow":
        _, var, it, opts, body = st
        return _tag(lay, "tablerow " + _loop_head(var, it, opts, lay)) + pbody(body, lay) + _tag(lay, "endtablerow")
    if k in ("break", "continue"):
        return _tag(lay, k)
    if k in ("increment", "decrement"):
        return _tag(lay, f"{k} {st[1]}")
    if k == "cycle":
        sep = "," if lay.style == "tight" else ", "
        grp = "" if st[1] is None else (pexpr(st[1], lay) if isinstance(st[1], tuple) else st[1]) + (":" if lay.style == "tight" else ": ")
        return _tag(lay, "cycle " + grp + sep.join(pexpr(x, lay) for x in st[2]))
    if k == "raw":
        a, b, c, d = lay.wc(), lay.wc(), lay.wc(), lay.wc()
        lay.pieces.append(("m", a, d))
        if len(st) > 2:
            lay.pieces.append(("raw", st[2], b, c))
        if lay.style == "tight":
            return "{%" + a + "raw" + b + "%}" + st[1] + "{%" + c + "endraw" + d + "%}"
        return "{%" + a + " raw " + b + "%}" + st[1] + "{%" + c + " endraw " + d + "%}"
    if k == "comment":
        kind, text = st[1], st[2]
        l, r = lay.wc(), lay.wc()
        lay.pieces.append(("m", l, r))
        if kind == "hash":
            return "{#" + l + text + r + "#}"
        if kind == "inline":
            return "{%" + l + " #" + text + r + "%}"
        return "{%" + l + " comment %}" + text + "{% endcomment " + r + "%}"
    if k == "liquid":
        l, r = lay.wc(), lay.wc()
        lay.pieces.append(("m", l, r))
        lines = []
        for s2 in st[1]:
            lines.extend(_pline(s2, lay))
        return "{%" + l + " liquid\n" + "\n".join("  " + x for x in lines) + "\n" + r + "%}"
    if k == "with":
        return _tag(lay, "with " + _kwargs(st[1], lay)) + pbody(st[2], lay) + _tag(lay, "endwith")
    if k == "macro":
        sep = "," if lay.style == "tight" else ", "
        params = sep.join(p if d is None else _pkw(p, d, lay) for p, d in st[2])
        return _tag(lay, f"macro {st[1]}" + (" " + params if params else "")) + pbody(st[3], lay) + _tag(lay, "endmacro")
    if k == "call":
        sep = "," if lay.style == "tight" else ", "
        args = [pexpr(a, lay) for a in st[2]] + [_pkw(kk, v, lay) for kk, v in st[3]]
        return _tag(lay, f"call {st[1]}" + (" " + sep.join(args) if args else ""))
    if k in ("include", "render"):
        _, name, var, alias, is_for, kws = st
        s = k + " " + (pexpr(name, lay) if isinstance(name, tuple) else quote_string(name, lay.quote))
        if var is not None:
            s += (" for " if is_for else " with ") + pexpr(var, lay)
            if alias is not None:
                s += " as " + alias
        if kws:
            s += ("," if lay.style == "tight" else ", ") + _kwargs(kws, lay)
        return _tag(lay, s)
    if k == "extends":
        return _tag(lay, "extends " + quote_string(st[1], lay.quote))
    if k == "block":
        _, name, body, required = st
        return _tag(lay, f"block {name}" + (" required" if required else "")) + pbody(body, lay) + _tag(lay, f"endblock {name}")
    if k == "translate":
        _, kws, sing, plur = st
        s = _tag(lay, "translate" + (" " + _kwargs(kws, lay) if kws else "")) + pbody(sing, lay)
        if plur is not None:
            s += _tag(lay, "plural") + pbody(plur, lay)
        return s + _tag(lay, "endtranslate")
    if k == "rawsrc":  # escape hatch: literal source text
        return st[1]
    raise ValueError(f"unknown statement {st!r}")


def _pline(st: Stmt, lay: Layout) -> list[str]:
    """Line-statement form of a tag statement (inside {% liquid %}): one tag per line, no markers."""
    plain = Layout(style="canon", quote=lay.quote, kwsep=lay.kwsep)
    k = st[0]

    def inner(s: Stmt) -> str:
        # print with the canonical layout and strip the tag delimiters
        txt = pstmt(s, plain)
        assert txt.startswith("{% ") and txt.endswith(" %}"), txt
        return txt[3:-3]

    if k in ("echo", "assign", "break", "continue", "increment", "decrement", "cycle", "call", "include", "render"):
        return [inner(st)]
    if k == "comment":
        return ["#" + st[2].replace("\n", " ")]
    if k == "if":
        out = []
        for i, (cond, body) in enumerate(st[1]):
            out.append(("if " if i == 0 else "elsif ") + pexpr(cond, plain))
            for s2 in body:
                out.extend(_pline(s2, lay))
        if st[2] is not None:
            out.append("else")
            for s2 in st[2]:
                out.extend(_pline(s2, lay))
        out.append("endif")
        return out
    if k == "unless":
        out = ["unless " + pexpr(st[1], plain)]
        for s2 in st[2]:
            out.extend(_pline(s2, lay))
        if st[4] is not None:
            out.append("else")
            for s2 in st[4]:
                out.extend(_pline(s2, lay))
        out.append("endunless")
        return out
    if k == "for":
        _, var, it, opts, body, els = st
        out = ["for " + _loop_head(var, it, opts, plain)]
        for s2 in body:
            out.extend(_pline(s2, lay))
        if els is not None:
            out.append("else")
            for s2 in els:
                out.extend(_pline(s2, lay))
        out.append("endfor")
        return out
    if k == "case":
        out = ["case " + pexpr(st[1], plain)]
        for vals, body in st[2]:
            out.append("when " + ", ".join(pexpr(v, plain) for v in vals))
            for s2 in body:
                out.extend(_pline(s2, lay))
        if st[3] is not None:
            out.append("else")
            for s2 in st[3]:
                out.extend(_pline(s2, lay))
        out.append("endcase")
        return out
    if k == "capture":
        out = [f"capture {st[1]}"]
        for s2 in st[2]:
            out.extend(_pline(s2, lay))
        out.append("endcapture")
        return out
    if k == "with":
        out = ["with " + _kwargs(st[1], plain)]
        for s2 in st[2]:
            out.extend(_pline(s2, lay))
        out.append("endwith")
        return out
    raise ValueError(f"statement {k} has no line-statement form")


def line_form_ok(st: Stmt) -> bool:
    """Can `st` be written as line statements inside {% liquid %}?"""
    k = st[0]
    if k in ("echo", "assign", "break", "continue", "increment", "decrement", "cycle", "call", "include", "render"):
        return True
    if k == "comment":
        return st[1] == "inline" and "\n" not in st[2]
    if k == "if":
        return all(all(line_form_ok(s) for s in b) for _, b in st[1]) and (st[2] is None or all(line_form_ok(s) for s in st[2]))
    if k == "unless":
        return not st[3] and all(line_form_ok(s) for s in st[2]) and (st[4] is None or all(line_form_ok(s) for s in st[4]))
    if k == "for":
        return all(line_form_ok(s) for s in st[4]) and (st[5] is None or all(line_form_ok(s) for s in st[5]))
    if k == "case":
        return all(all(line_form_ok(s) for s in b) for _, b in st[2]) and (st[3] is None or all(line_form_ok(s) for s in st[3]))
    if k in ("capture",):
        return all(line_form_ok(s) for s in st[2])
    if k == "with":
        return all(line_form_ok(s) for s in st[2])
    return False


def print_program(body: Body, lay: Layout | None = None) -> str:
    lay = lay or Layout()
    lay.reset()
    return pbody(body, lay)


def marker_positions(body: Body, style: str = "canon") -> int:
    lay = Layout(style=style)
    print_program(body, lay)
    return lay.positions


# ------------------------------------------------------------------ traversal helpers


def walk(body: Body) -> Iterator[Stmt]:
    for st in body:
        yield st
        for sub in sub_bodies(st):
            yield from walk(sub)


def sub_bodies(st: Stmt) -> list[Body]:  # noqa: PLR0911
    k = st[0]
    if k == "capture":
        return [st[2]]
    if k == "if":
        return [b for _, b in st[1]] + ([st[2]] if st[2] is not None else [])
    if k == "unless":
        return [st[2]] + [b for _, b in st[3]] + ([st[4]] if st[4] is not None else [])
    if k == "case":
        return [b for _, b in st[2]] + ([st[3]] if st[3] is not None else [])
    if k == "for":
        return [st[4]] + ([st[5]] if st[5] is not None else [])
    if k == "tablerow":
        return [st[4]]
    if k in ("liquid",):
        return [st[1]]
    if k == "with":
        return [st[2]]
    if k == "macro":
        return [st[3]]
    if k == "block":
        return [st[2]]
    if k == "translate":
        return [st[2]] + ([st[3]] if st[3] is not None else [])
    return []


def map_text(body: Body, fn: Callable[[str], str]) -> Body:
    """Rewrite every literal text statement (used to relabel alphabets)."""
    out = []
    for st in body:
        if st[0] == "text":
            out.append(("text", fn(st[1])))
        else:
            out.append(st)
    return tuple(out)


def uniquify(body: Body, counter: list[int] | None = None) -> Body:
    """Give every text / raw statement a unique id as a trailing element (the printer ignores it but records it in
    Layout.pieces), so that a model can tell which markers are adjacent to which text in the printed source."""
    counter = counter if counter is not None else [0]
    out = []
    for st in body:
        k = st[0]
        if k in ("text", "raw"):
            counter[0] += 1
            out.append((k, st[1], counter[0]))
        elif k == "capture":
            out.append((k, st[1], uniquify(st[2], counter)))
        elif k == "if":
            out.append((k, tuple((c, uniquify(b, counter)) for c, b in st[1]), None if st[2] is None else uniquify(st[2], counter)))
        elif k == "unless":
            out.append((k, st[1], uniquify(st[2], counter), tuple((c, uniquify(b, counter)) for c, b in st[3]), None if st[4] is None else uniquify(st[4], counter)))
        elif k == "case":
            out.append((k, st[1], tuple((v, uniquify(b, counter)) for v, b in st[2]), None if st[3] is None else uniquify(st[3], counter)))
        elif k == "for":
            out.append((k, st[1], st[2], st[3], uniquify(st[4], counter), None if st[5] is None else uniquify(st[5], counter)))
        elif k == "tablerow":
            out.append((k, st[1], st[2], st[3], uniquify(st[4], counter)))
        elif k == "with":
            out.append((k, st[1], uniquify(st[2], counter)))
        elif k == "macro":
            out.append((k, st[1], st[2], uniquify(st[3], counter)))
        elif k == "block":
            out.append((k, st[1], uniquify(st[2], counter), st[3]))
        elif k == "liquid":
            out.append(st)
        else:
            out.append(st)
    return tuple(out)
