"""./check <ID> quick|thorough   |   ./check <ID> --replay <file>"""

from __future__ import annotations

import importlib
import json
import os
import sys

from . import harness


def main(argv: list[str]) -> int:
    if len(argv) < 2:
        print(__doc__)
        return 2
    prop = argv[0].upper()
    mod = importlib.import_module(f"checks.{prop.lower()}")
    seed = int(os.environ.get("VERIF_SEED", "0") or 0)
    if argv[1] == "--replay":
        rec = json.loads(open(argv[2]).read())
        if "replay_shard" in rec["case"]:
            # a history-dependent violation: re-run the recorded shard from the start
            def tup(x):  # JSON turned the shard tuple into lists
                return tuple(tup(y) for y in x) if isinstance(x, list) else x

            mod.plan(rec["case"].get("tier", "quick"), seed)
            vs = [v for v in mod.run_shard(tup(rec["case"]["replay_shard"])).violations if v["sig"] == rec["sig"]][:1]
        else:
            vs = mod.replay(rec["case"])
        if vs:
            for v in vs:
                print(f"VIOLATION property={prop} replay={argv[2]}")
                print(f"  sig: {v['sig']}")
                print(f"  expected: {json.dumps(v['expected'], default=repr)[:400]}")
                print(f"  observed: {json.dumps(v['observed'], default=repr)[:400]}")
            return 1
        print(f"{prop}: replayed case holds")
        return 0
    tier = os.environ.get("VERIF_TIER") or argv[1]
    if argv[1] in ("quick", "thorough"):
        tier = argv[1]
    if tier not in ("quick", "thorough"):
        print("tier must be quick|thorough")
        return 2
    return harness.run_check(mod, tier, seed)


if __name__ == "__main__":
    sys.exit(main(sys.argv[1:]))
