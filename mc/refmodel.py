"""E2 — reference interpreter for the documented Liquid semantics over the mini-AST of mc/lang.py.

It never sees source text: it interprets the tuples that *we* generate, so it is independent of the lexer, the
Pratt parser, the whitespace carry, the node classes and their async twins. Where the documentation is silent the
model mirrors the implementation and says so in a comment tagged [mirror]; those points are listed in DESIGN.md.

    render(body, data, *, partials=None, layout=None, trim='+', suppress=True) -> ('ok', text) | ('error', class name)

`Unsupported` is raised for constructs the model does not define (the caller skips and counts such cases).
"""

from __future__ import annotations

import json
from decimal import Decimal
from typing import Any

from .lang import Layout
from .lang import pexpr
from .lang import print_program
from .lang import uniquify


class Unsupported(Exception):
    pass


class ModelError(Exception):
    def __init__(self, cls: str) -> None:
        super().__init__(cls)
        self.cls = cls


class _Break(Exception):
    pass


class _Continue(Exception):
    pass


class Undef:
    """The default undefined value: prints as '', iterates as empty, equals nil."""

    def __eq__(self, other: object) -> bool:
        return other is None or isinstance(other, Undef)

    def __hash__(self) -> int:
        return 0

    def __repr__(self) -> str:
        return "UNDEF"


UNDEF = Undef()


class _Empty:
    def __repr__(self) -> str:
        return "EMPTY"


class _Blank:
    def __repr__(self) -> str:
        return "BLANK"


EMPTY, BLANK = _Empty(), _Blank()


class LambdaV:
    def __init__(self, params: tuple, body: tuple) -> None:
        self.params, self.body = params, body


# ------------------------------------------------------------------ values


def to_s(v: Any) -> str:
    """The Liquid string form of a value (what {{ v }} writes)."""
    if isinstance(v, str):
        return v
    if isinstance(v, bool):
        return "true" if v else "false"
    if v is None or isinstance(v, Undef) or isinstance(v, (_Empty, _Blank)):
        return ""
    if isinstance(v, range):
        return f"{v.start}..{v.stop - 1}"
    if isinstance(v, (list, tuple)):
        return "".join(to_s(x) for x in v)
    if isinstance(v, dict):
        return str(v)  # [mirror] the string form of a hash is Python's
    if isinstance(v, float):
        return str(v)
    return str(v)


def truthy(v: Any) -> bool:
    return not (v is False or v is None or isinstance(v, Undef))


def liquid(v: Any) -> Any:
    return None if isinstance(v, Undef) else v


def eq(l: Any, r: Any) -> bool:
    l, r = liquid(l), liquid(r)
    if isinstance(r, (_Empty, _Blank)):
        l, r = r, l
    if isinstance(l, _Empty):
        return isinstance(r, _Empty) or (isinstance(r, (list, dict, str)) and not r)
    if isinstance(l, _Blank):
        if isinstance(r, str) and (not r or r.isspace()):
            return True
        if isinstance(r, (list, dict)) and not r:
            return True
        return isinstance(r, _Blank)
    if isinstance(r, bool):
        l, r = r, l
    if isinstance(l, bool):
        return isinstance(r, bool) and l == r
    return l == r


def lt(l: Any, r: Any) -> bool:
    l, r = liquid(l), liquid(r)
    if isinstance(l, str) and isinstance(r, str):
        return l < r
    if isinstance(l, bool) or isinstance(r, bool):
        return False
    if isinstance(l, (int, float)) and isinstance(r, (int, float)):
        return l < r
    raise ModelError("LiquidTypeError")


def py_s(v: Any) -> str:
    """Python's str() of a model value (used where the implementation documents plain str())."""
    if isinstance(v, Undef):
        return ""
    if isinstance(v, (_Empty, _Blank)):
        return repr(v).lower()
    return str(v)


def contains(l: Any, r: Any) -> bool:
    if isinstance(l, str):
        return py_s(r) in l  # [mirror] the right operand is str()-ed, not Liquid-stringified
    if isinstance(l, Undef):
        return False
    if isinstance(l, (list, tuple, dict, range)):
        try:
            return r in l
        except TypeError:
            return False  # an unhashable value is never a key of a hash
    raise ModelError("LiquidTypeError")


# ------------------------------------------------------------------ the interpreter


class Ctx:
    def __init__(self, data: dict[str, Any], partials: dict[str, tuple], cfg: dict[str, Any], trims: dict[int, tuple]) -> None:
        self.globals_chain: list[dict[str, Any]] = [data]
        self.locals: dict[str, Any] = {}
        self.scopes: list[dict[str, Any]] = []
        self.counters: dict[str, int] = {}
        self.cycles: dict[Any, int] = {}
        self.stopindex: dict[Any, int] = {}
        self.macros: dict[str, tuple] = {}
        self.loops: list[dict[str, Any]] = []
        self.partials = partials
        self.cfg = cfg
        self.trims = trims
        self.no_include = False
        self.partial_trims: dict[str, dict[int, tuple]] = cfg.get("partial_trims", {})

    def child(self, namespace: dict[str, Any], *, trims: dict[int, tuple] | None = None) -> "Ctx":
        """The isolated context of `render` / `call`: global data + arguments only."""
        c = Ctx({}, self.partials, self.cfg, self.trims if trims is None else trims)
        c.globals_chain = [namespace, *self.globals_chain]
        c.no_include = True
        return c

    def lookup(self, name: str) -> Any:
        for sc in reversed(self.scopes):
            if name in sc:
                return sc[name]
        if name in self.locals:
            return self.locals[name]
        for g in self.globals_chain:
            if name in g:
                return g[name]
        if name in ("now", "today"):
            raise Unsupported("clock")
        if name in self.counters:
            return self.counters[name]
        return UNDEF


def get_item(obj: Any, key: Any) -> Any:
    """One path segment. Returns UNDEF when it does not exist."""
    if isinstance(key, Undef):
        key = None
    if isinstance(obj, Undef):
        return UNDEF

    def plain(o: Any, k: Any) -> Any:
        if isinstance(o, dict):
            try:
                return o[k]
            except TypeError:
                raise KeyError(k) from None
        if isinstance(o, (list, tuple, str, range)):
            if not isinstance(k, int):
                raise KeyError(k)
            return o[k]  # [mirror] a boolean index is Python's 0 / 1
        raise KeyError(k)

    try:
        if key == "size" and isinstance(key, str):
            try:
                return plain(obj, "size")
            except (KeyError, IndexError):
                if isinstance(obj, (str, list, tuple, dict, range)):
                    return len(obj)
                return UNDEF
        if key == "first" and isinstance(key, str):
            try:
                return plain(obj, "first")
            except (KeyError, IndexError):
                if isinstance(obj, dict) and obj:
                    return next(iter(obj.items()))
                if isinstance(obj, (list, tuple, str, range)):
                    return obj[0] if len(obj) else UNDEF
                return UNDEF
        if key == "last" and isinstance(key, str):
            try:
                return plain(obj, "last")
            except (KeyError, IndexError):
                if isinstance(obj, (list, tuple, str, range)):
                    return obj[-1] if len(obj) else UNDEF
                return UNDEF
        return plain(obj, key)
    except (KeyError, IndexError):
        return UNDEF


def ev(e: tuple, c: Ctx) -> Any:  # noqa: PLR0911, PLR0912
    k = e[0]
    if k == "nil":
        return None
    if k == "true":
        return True
    if k == "false":
        return False
    if k == "empty":
        return EMPTY
    if k == "blank":
        return BLANK
    if k in ("int", "float", "str"):
        return e[1]
    if k == "var":
        obj = c.lookup(e[1])
        for seg in e[2]:
            if isinstance(obj, Undef):
                return UNDEF
            if seg[0] in ("k", "q"):
                obj = get_item(obj, seg[1])
            elif seg[0] in ("i", "si"):
                obj = get_item(obj, seg[1])
            else:
                obj = get_item(obj, ev(seg[1], c))
        return obj
    if k == "range":
        lo, hi = _range_int(ev(e[1], c)), _range_int(ev(e[2], c))
        return range(0) if lo > hi else range(lo, hi + 1)
    if k == "array":
        return [ev(x, c) for x in e[1]]
    if k == "tstr":
        return "".join(p[1] if p[0] == "lit" else to_s(ev(p, c)) for p in e[1])
    if k == "filtered":
        v = ev(e[1], c)
        for f in e[2]:
            v = apply_filter(f, v, c)
        return v
    if k == "ternary":
        _, left, cond, alt, afilters, tfilters = e
        v: Any = None
        if truthy(ev(cond, c)):
            v = ev(left, c)
        elif alt is not None:
            v = ev(alt, c)
            for f in afilters:
                v = apply_filter(f, v, c)
        for f in tfilters:
            v = apply_filter(f, v, c)
        return v
    if k == "not":
        return not truthy(ev(e[1], c))
    if k == "and":
        return truthy(ev(e[1], c)) and truthy(ev(e[2], c))
    if k == "or":
        return truthy(ev(e[1], c)) or truthy(ev(e[2], c))
    if k == "paren":
        return ev(e[1], c)
    if k == "cmp":
        op = e[1]
        l, r = ev(e[2], c), ev(e[3], c)
        if op == "==":
            return eq(l, r)
        if op in ("!=", "<>"):
            return not eq(l, r)
        if op == "<":
            return lt(l, r)
        if op == ">":
            return lt(r, l)
        if op == "<=":
            return eq(l, r) or lt(l, r)
        if op == ">=":
            return eq(l, r) or lt(r, l)
        if op == "contains":
            return contains(l, r)
        if op == "in":
            return contains(r, l)
    if k == "lambda":
        return LambdaV(e[1], e[2])
    raise Unsupported(f"expression {k}")


def _range_int(v: Any) -> int:
    v = liquid(v)
    if isinstance(v, bool):
        return int(v)
    if isinstance(v, int):
        return v
    if isinstance(v, float):
        if v != v or v in (float("inf"), float("-inf")):
            return 0
        return int(v)
    if isinstance(v, str):
        try:
            return int(v)
        except ValueError:
            return 0
    return 0


# ------------------------------------------------------------------ filters (reference definitions)


def _num(v: Any) -> Any:
    v = liquid(v)
    if isinstance(v, bool):
        return int(v)  # [mirror] booleans are ints in Python
    if isinstance(v, (int, float)):
        return v
    if isinstance(v, str):
        try:
            return int(v)
        except ValueError:
            try:
                return float(v)
            except ValueError:
                return 0
    return 0


def _seq(v: Any) -> list[Any]:
    if isinstance(v, Undef):
        return []
    if isinstance(v, str):
        return list(v)
    if isinstance(v, (list, tuple, range)):
        out: list[Any] = []

        def flat(it: Any, level: int) -> None:
            for x in it:
                if level and isinstance(x, (list, tuple)):
                    flat(x, level - 1)
                else:
                    out.append(x)

        flat(v, 5)
        return out
    if isinstance(v, dict):
        return [v]
    return [v]


def _arith(op: str, a: Any, b: Any) -> Any:
    if isinstance(liquid(a), bool) or isinstance(liquid(b), bool):
        raise Unsupported("arithmetic on booleans is not documented")
    x, y = _num(a), _num(b)
    if isinstance(x, int) and isinstance(y, int):
        return {"plus": x + y, "minus": x - y, "times": x * y}[op]
    dx, dy = Decimal(str(x)), Decimal(str(y))
    return float({"plus": dx + dy, "minus": dx - dy, "times": dx * dy}[op])


def apply_filter(f: tuple, v: Any, c: Ctx) -> Any:  # noqa: PLR0911, PLR0912, PLR0915
    name, rawargs = f
    args: list[Any] = []
    kwargs: dict[str, Any] = {}
    for a in rawargs:
        if a[0] == "kw":
            kwargs[a[1]] = ev(a[2], c)
        else:
            args.append(ev(a, c))
    s = to_s(v)
    if name == "upcase" and not args:
        return s.upper()
    if name == "downcase" and not args:
        return s.lower()
    if name == "capitalize" and not args:
        return s.capitalize()
    if name in ("strip", "lstrip", "rstrip") and not args:
        return getattr(s, name)()
    if name == "append" and len(args) == 1:
        return s + to_s(args[0])
    if name == "prepend" and len(args) == 1:
        return to_s(args[0]) + s
    if name == "size" and not args:
        v = liquid(v)
        return len(v) if isinstance(v, (str, list, tuple, dict, range)) else 0
    if name == "first" and not args:
        if isinstance(v, str):
            return None
        if isinstance(v, dict):
            return next(iter(v.items())) if v else None
        if isinstance(v, (list, tuple, range)):
            return v[0] if len(v) else None
        return None
    if name == "last" and not args:
        if isinstance(v, (list, tuple, range)) and len(v):
            return v[-1]
        return None
    if name == "join" and len(args) <= 1:
        sep = " " if not args else to_s(args[0])
        return sep.join(to_s(x) for x in _seq(v))
    if name == "reverse" and not args:
        return list(reversed(_seq(v)))
    if name in ("plus", "minus", "times") and len(args) == 1:
        return _arith(name, v, args[0])
    if name == "default" and len(args) <= 1:
        dflt = args[0] if args else ""
        allow_false = kwargs.get("allow_false") is True
        lv = liquid(v)
        if isinstance(v, Undef) and False:
            return dflt
        if not isinstance(lv, bool) and isinstance(lv, (int, float)):
            return v
        if allow_false and lv is False:
            return v
        if lv is None or lv is False or (isinstance(lv, (list, dict, str)) and not lv):
            return dflt
        return v
    if name == "split" and len(args) == 1:
        sep = args[0]
        if not truthy(sep) or sep == "":
            return list(s)
        sep = to_s(sep)
        if not s or s == sep:
            return []
        return s.split(sep)
    if name == "json" and not args:
        try:
            return json.dumps(_plain(v))
        except TypeError:
            raise ModelError("LiquidTypeError") from None
    if name == "map" and len(args) == 1:
        key = args[0]
        out = []
        for item in _seq(v):
            if isinstance(key, LambdaV):
                r = _call_lambda(key, item, 0, c)
                out.append(None if isinstance(r, Undef) else r)
            else:
                if not isinstance(item, (dict, list, tuple, str, range)):
                    raise ModelError("LiquidTypeError")
                r = get_item_strict(item, to_s(key))
                out.append(None if isinstance(r, Undef) else r)
        return out
    if name in ("where", "find") and 1 <= len(args) <= 2:
        key = args[0]
        val = args[1] if len(args) == 2 else None
        sel = []
        for i, item in enumerate(_seq(v)):
            if isinstance(key, LambdaV):
                r = _call_lambda(key, item, i, c)
                ok = not isinstance(r, Undef) and truthy(r)
            else:
                r = get_item_strict(item, key) if isinstance(item, (dict, list, tuple, str, range)) else _raise_type()
                r = None if isinstance(r, Undef) else r
                ok = (r == val) if (val is not None and not isinstance(val, Undef)) else (r is not None and r is not False)
            if ok:
                if name == "find":
                    return item
                sel.append(item)
        return None if name == "find" else sel
    if name == "concat" and len(args) == 1:
        if not isinstance(args[0], (list, tuple)):
            raise ModelError("LiquidTypeError")
        return _seq(v) + list(args[0])
    if name == "compact" and not args:
        return [x for x in _seq(v) if x is not None]
    raise Unsupported(f"filter {name}/{len(args)}")


def _raise_type() -> Any:
    raise ModelError("LiquidTypeError")


def get_item_strict(item: Any, key: Any) -> Any:
    """obj[key] with missing -> UNDEF (the helper used by key-taking filters)."""
    if isinstance(item, dict):
        try:
            return item.get(key, UNDEF)
        except TypeError:
            return UNDEF
    if isinstance(item, (list, tuple, str, range)):
        if isinstance(key, int) and not isinstance(key, bool):
            try:
                return item[key]
            except IndexError:
                return UNDEF
        return UNDEF
    return UNDEF


def _plain(v: Any) -> Any:
    if isinstance(v, Undef):
        raise TypeError("undefined")
    if isinstance(v, (list, tuple)):
        return [_plain(x) for x in v]
    if isinstance(v, dict):
        return {k: _plain(x) for k, x in v.items()}
    if isinstance(v, range):
        raise TypeError("range")
    if isinstance(v, (_Empty, _Blank, LambdaV)):
        raise TypeError("special")
    return v


def _call_lambda(lam: LambdaV, item: Any, index: int, c: Ctx) -> Any:
    scope = {lam.params[0]: item}
    if len(lam.params) > 1:
        scope[lam.params[1]] = index
    c.scopes.append(scope)
    try:
        return ev(lam.body, c)
    finally:
        c.scopes.pop()


# ------------------------------------------------------------------ statements

BLANK_KINDS = {"assign", "capture", "comment", "macro", "break", "continue"}


def is_blank_stmt(st: tuple) -> bool:
    k = st[0]
    if k == "text":
        return (not st[1]) or st[1].isspace()
    if k == "raw":
        return (not st[1]) or st[1].isspace()  # (evaluated on the text as written; trimming only removes whitespace)
    if k in BLANK_KINDS:
        return True
    if k == "if":
        return all(is_blank_body(b) for _, b in st[1]) and (st[2] is None or is_blank_body(st[2]))
    if k == "unless":
        return is_blank_body(st[2]) and all(is_blank_body(b) for _, b in st[3]) and (st[4] is None or is_blank_body(st[4]))
    if k == "case":
        return all(is_blank_body(b) for _, b in st[2]) and (st[3] is None or is_blank_body(st[3]))
    if k == "for":
        return is_blank_body(st[4]) and (st[5] is None or is_blank_body(st[5]))
    if k in ("with",):
        return is_blank_body(st[2])
    if k == "liquid":
        return is_blank_body(st[1])
    return False  # out, echo, increment, decrement, cycle, include, render, call ...


def is_blank_body(body: tuple) -> bool:
    return all(is_blank_stmt(s) for s in body)


def trim_text(text: str, left: str, right: str, default: str) -> str:
    l = left or default
    r = right or default
    if l == "-":
        text = text.lstrip()
    elif l == "~":
        text = text.lstrip("\r\n")
    if r == "-":
        text = text.rstrip()
    elif r == "~":
        text = text.rstrip("\r\n")
    return text


def run_body(body: tuple, c: Ctx, out: list[str], *, block: bool = True) -> None:
    """Render a body. A body that is a *block* and blank is executed but writes nothing when suppression is on."""
    if block and c.cfg["suppress"] and is_blank_body(body):
        sink: list[str] = []
        for st in body:
            run_stmt(st, c, sink)
        return
    for st in body:
        run_stmt(st, c, out)


def run_stmt(st: tuple, c: Ctx, out: list[str]) -> None:  # noqa: PLR0912, PLR0915
    k = st[0]
    if k == "text":
        if len(st) > 2 and st[2] in c.trims:
            l, r = c.trims[st[2]]
            out.append(trim_text(st[1], l, r, c.cfg["trim"]))
        else:
            out.append(trim_text(st[1], "", "", c.cfg["trim"]))
        return
    if k == "out" or k == "echo":
        out.append(to_s(ev(st[1], c)))
        return
    if k == "assign":
        c.locals[st[1]] = ev(st[2], c)
        return
    if k == "capture":
        buf: list[str] = []
        run_body(st[2], c, buf)
        c.locals[st[1]] = "".join(buf)
        return
    if k == "if":
        for cond, body in st[1]:
            if truthy(ev(cond, c)):
                run_body(body, c, out)
                return
        if st[2] is not None:
            run_body(st[2], c, out)
        return
    if k == "unless":
        if not truthy(ev(st[1], c)):
            run_body(st[2], c, out)
            return
        for cond, body in st[3]:
            if truthy(ev(cond, c)):
                run_body(body, c, out)
                return
        if st[4] is not None:
            run_body(st[4], c, out)
        return
    if k == "case":
        subject = ev(st[1], c)
        matched = False
        for vals, body in st[2]:
            if any(eq(subject, ev(v, c)) for v in vals):
                matched = True
                run_body(body, c, out)
        if not matched and st[3] is not None:
            run_body(st[3], c, out)
        return
    if k == "for":
        _for(st, c, out)
        return
    if k == "break":
        raise _Break()
    if k == "continue":
        raise _Continue()
    if k == "increment":
        v = c.counters.get(st[1], 0)
        c.counters[st[1]] = v + 1
        out.append(str(v))
        return
    if k == "decrement":
        v = c.counters.get(st[1], 0) - 1
        c.counters[st[1]] = v
        out.append(str(v))
        return
    if k == "cycle":
        group = None if st[1] is None else (ev(st[1], c) if isinstance(st[1], tuple) else st[1])
        key = (group, tuple(pexpr(x, Layout()) for x in st[2]))
        i = c.cycles.get(key, 0)
        c.cycles[key] = i + 1
        out.append(to_s(ev(st[2][i % len(st[2])], c)))
        return
    if k == "raw":
        text = st[1]
        if len(st) > 2 and ("raw", st[2]) in c.trims:
            b, cc = c.trims[("raw", st[2])]
            text = trim_text(text, b, cc, c.cfg["trim"])
        else:
            text = trim_text(text, "", "", c.cfg["trim"])
        out.append(text)
        return
    if k == "comment":
        return
    if k == "liquid":
        run_body(st[1], c, out)
        return
    if k == "with":
        ns = {name: ev(e, c) for name, e in st[1]}
        c.scopes.append(ns)
        try:
            run_body(st[2], c, out)
        finally:
            c.scopes.pop()
        return
    if k == "macro":
        c.macros[st[1]] = (st[2], st[3])
        return
    if k == "call":
        _call(st, c, out)
        return
    if k == "include":
        _include(st, c, out)
        return
    if k == "render":
        _render(st, c, out)
        return
    raise Unsupported(f"statement {k}")


def _iter_of(v: Any) -> list[Any]:
    if isinstance(v, Undef):
        return []
    if isinstance(v, dict):
        return list(v.items())
    if isinstance(v, range):
        try:
            if len(v) > 10**6:
                raise Unsupported("huge range")
        except OverflowError:
            raise ModelError("LiquidValueError") from None
        return list(v)
    if isinstance(v, (list, tuple, str)):
        return list(v)
    raise ModelError("LiquidTypeError")


def _loop_int(v: Any) -> int:
    if isinstance(v, Undef):
        return 0  # [mirror] an undefined limit / offset is 0
    v = liquid(v)
    if isinstance(v, bool):
        return int(v)
    if isinstance(v, int):
        return v
    if isinstance(v, float):
        if v != v or abs(v) == float("inf"):
            raise ModelError("LiquidTypeError")
        return int(v)
    if isinstance(v, str):
        try:
            return int(v)
        except ValueError:
            raise ModelError("LiquidTypeError") from None
    raise ModelError("LiquidTypeError")


def _for(st: tuple, c: Ctx, out: list[str]) -> None:
    _, var, it_e, opts, body, els = st
    items = _iter_of(ev(it_e, c))
    length = len(items)
    limit = offset = None
    rev = False
    for o in opts:
        if o[0] == "limit":
            limit = _loop_int(ev(o[1], c))
        elif o[0] == "offset":
            offset = "continue" if o[1] == "continue" else _loop_int(ev(o[1], c))
        elif o[0] == "reversed":
            rev = True
    key = (var, pexpr(it_e, Layout()))
    if limit is None and offset is None:
        c.stopindex[key] = length
    else:
        if offset == "continue":
            # [mirror] (as in the reference implementation: from = offsets[name]; offsets[name] = from + len(segment))
            # the recorded stop index is NOT clamped to a shorter iterable: nothing is left, and the index stays put
            offset = c.stopindex.get(key, 0)
            length = max(length - offset, 0)
        elif offset is not None:
            offset = min(max(offset, 0), length)
            length = max(length - offset, 0)
        if limit is not None:
            length = min(length, max(limit, 0))
        stop = (offset or 0) + length
        c.stopindex[key] = stop
        items = items[(offset or 0) : stop]
    if rev:
        items = list(reversed(items))
    if not length:
        if els is not None:
            run_body(els, c, out)
        return
    forloop: dict[str, Any] = {"length": length, "parentloop": c.loops[-1] if c.loops else UNDEF, "name": f"{var}-{pexpr(it_e, Layout())}"}
    ns = {"forloop": forloop, var: None}
    c.loops.append(forloop)
    c.scopes.append(ns)
    try:
        for i, item in enumerate(items):
            forloop.update(index=i + 1, index0=i, rindex=length - i, rindex0=length - i - 1, first=i == 0, last=i == length - 1)
            ns[var] = item
            try:
                run_body(body, c, out)
            except _Continue:
                continue
            except _Break:
                break
    finally:
        c.scopes.pop()
        c.loops.pop()


def _call(st: tuple, c: Ctx, out: list[str]) -> None:
    _, name, pos, kws = st
    if name not in c.macros:
        return  # an undefined macro renders as nothing
    params, body = c.macros[name]
    bound: dict[str, Any] = {p: d for p, d in params}
    pnames = [p for p, _ in params]
    excess: list[Any] = []
    for i, a in enumerate(pos):
        if i < len(pnames):
            bound[pnames[i]] = a
        else:
            excess.append(a)
    xkw = {}
    for kname, e in kws:
        if kname in bound:
            bound[kname] = e
        else:
            xkw[kname] = e
    ns: dict[str, Any] = {"args": [ev(a, c) for a in excess], "kwargs": {n: ev(e, c) for n, e in xkw.items()}}
    for p in pnames:
        ns[p] = UNDEF if bound[p] is None else ev(bound[p], c)
    child = c.child(ns)
    run_body(body, child, out)


def _partial(name: Any, c: Ctx) -> tuple[tuple, dict[int, tuple]]:
    name = to_s(name) if not isinstance(name, str) else name
    if name not in c.partials:
        raise ModelError("TemplateNotFoundError")
    return c.partials[name], c.partial_trims.get(name, {})


def _include(st: tuple, c: Ctx, out: list[str]) -> None:
    if c.no_include:
        raise ModelError("DisabledTagError")
    _, name_e, var, alias, is_for, kws = st
    name = ev(name_e, c) if isinstance(name_e, tuple) else name_e
    body, trims = _partial(name, c)
    ns: dict[str, Any] = {n: ev(e, c) for n, e in kws}
    saved = c.trims
    c.scopes.append(ns)
    c.trims = trims
    try:
        if var is not None:
            val = ev(var, c)
            key = alias or to_s(name).split(".")[0]
            if isinstance(val, (list, tuple, range)):
                for item in val:
                    ns[key] = item
                    run_body(body, c, out, block=False)
            else:
                ns[key] = val
                run_body(body, c, out, block=False)
        else:
            run_body(body, c, out, block=False)
    finally:
        c.trims = saved
        c.scopes.pop()


def _render(st: tuple, c: Ctx, out: list[str]) -> None:
    _, name, var, alias, is_for, kws = st
    body, trims = _partial(name, c)
    ns: dict[str, Any] = {n: ev(e, c) for n, e in kws}
    child = c.child(ns, trims=trims)
    if var is not None:
        val = ev(var, c)
        key = alias or name.split(".")[0]
        if is_for and isinstance(val, (list, tuple, range)):
            n = len(val)
            forloop: dict[str, Any] = {"length": n, "parentloop": UNDEF, "name": key}
            ns["forloop"] = forloop
            for i, item in enumerate(val):
                forloop.update(index=i + 1, index0=i, rindex=n - i, rindex0=n - i - 1, first=i == 0, last=i == n - 1)
                ns[key] = item
                _run_partial(body, child, out)
        else:
            ns[key] = val
            _run_partial(body, child, out)
    else:
        _run_partial(body, child, out)


def _run_partial(body: tuple, c: Ctx, out: list[str]) -> None:
    try:
        run_body(body, c, out, block=False)
    except (_Break, _Continue):
        raise ModelError("LiquidSyntaxError") from None


# ------------------------------------------------------------------ entry point


def trims_from_pieces(pieces: list[tuple]) -> dict[Any, tuple]:
    """Which markers are adjacent to which text piece, from the printer's record of the printed source."""
    trims: dict[Any, tuple] = {}
    for i, p in enumerate(pieces):
        if p[0] == "t":
            left = ""
            right = ""
            if i > 0:
                q = pieces[i - 1]
                left = q[2] if q[0] == "m" else (q[3] if q[0] == "raw" else "")
                if q[0] == "raw":
                    # the raw piece sits between its own ("m", a, d): the marker next to following text is d
                    left = pieces[i - 2][2] if i >= 2 and pieces[i - 2][0] == "m" else ""
            if i + 1 < len(pieces):
                q = pieces[i + 1]
                right = q[1] if q[0] == "m" else ""
            trims[p[1]] = (left, right)
        elif p[0] == "raw":
            trims[("raw", p[1])] = (p[2], p[3])
    return trims


_PARTIAL_CACHE: dict[int, tuple] = {}


def merge_text(body: tuple) -> tuple:
    """Adjacent text statements are one piece of literal text in the source: merge them (recursively)."""
    from .lang import sub_bodies

    out: list[tuple] = []
    for st in body:
        k = st[0]
        if k == "text" and out and out[-1][0] == "text":
            out[-1] = ("text", out[-1][1] + st[1])
            continue
        if k == "capture":
            st = (k, st[1], merge_text(st[2]))
        elif k == "if":
            st = (k, tuple((c, merge_text(b)) for c, b in st[1]), None if st[2] is None else merge_text(st[2]))
        elif k == "unless":
            st = (k, st[1], merge_text(st[2]), tuple((c, merge_text(b)) for c, b in st[3]), None if st[4] is None else merge_text(st[4]))
        elif k == "case":
            st = (k, st[1], tuple((v, merge_text(b)) for v, b in st[2]), None if st[3] is None else merge_text(st[3]))
        elif k == "for":
            st = (k, st[1], st[2], st[3], merge_text(st[4]), None if st[5] is None else merge_text(st[5]))
        elif k == "with":
            st = (k, st[1], merge_text(st[2]))
        elif k == "macro":
            st = (k, st[1], st[2], merge_text(st[3]))
        out.append(st)
    return tuple(out)


def prepare(body: tuple, layout: Layout | None) -> tuple[tuple, str, dict[Any, tuple]]:
    """Returns (uniquified body, printed source, trims)."""
    ub = uniquify(merge_text(body))
    lay = layout or Layout()
    src = print_program(ub, lay)
    return ub, src, trims_from_pieces(lay.pieces)


def render(
    body: tuple,
    data: dict[str, Any],
    *,
    partials: dict[str, tuple] | None = None,
    layout: Layout | None = None,
    trim: str = "+",
    suppress: bool = True,
    prepared: tuple | None = None,
) -> tuple[str, Any, str, dict[str, str]]:
    """Returns (kind, value, printed main source, printed partial sources)."""
    ub, src, trims = prepared if prepared is not None else prepare(body, layout)
    key = id(partials)
    if key not in _PARTIAL_CACHE or _PARTIAL_CACHE[key][0] is not partials:
        psrcs0: dict[str, str] = {}
        pbodies0: dict[str, tuple] = {}
        ptrims0: dict[str, dict[Any, tuple]] = {}
        for name, pb in (partials or {}).items():
            u, s, t = prepare(pb, None)
            psrcs0[name], pbodies0[name], ptrims0[name] = s, u, t
        _PARTIAL_CACHE[key] = (partials, psrcs0, pbodies0, ptrims0)
    _p, psrcs, pbodies, ptrims = _PARTIAL_CACHE[key]
    cfg = {"trim": trim, "suppress": suppress, "partial_trims": ptrims}
    c = Ctx(data, pbodies, cfg, trims)
    out: list[str] = []
    try:
        try:
            run_body(ub, c, out, block=False)
        except (_Break, _Continue):
            return ("error", "LiquidSyntaxError", src, psrcs)
        return ("ok", "".join(out), src, psrcs)
    except ModelError as e:
        return ("error", e.cls, src, psrcs)


# ------------------------------------------------------------------ flat boolean expressions (own precedence climber)

_REL = ("==", "!=", "<>", "<", ">", "<=", ">=")
_MEM = ("contains", "in")


def parse_flat(tokens: list[Any]) -> tuple:
    """Parse a flat token list ['not', atom, 'and', '(', ...] with the documented precedence:
    `not` (its operand is everything to its right [mirror]) ; membership > relational > and > or ; infix right-assoc."""
    pos = [0]

    def peek() -> Any:
        return tokens[pos[0]] if pos[0] < len(tokens) else None

    def nxt() -> Any:
        t = peek()
        pos[0] += 1
        return t

    def or_() -> tuple:
        l = and_()
        if peek() == "or":
            nxt()
            return ("or", l, or_())
        return l

    def and_() -> tuple:
        l = rel()
        if peek() == "and":
            nxt()
            return ("and", l, and_())
        return l

    def rel() -> tuple:
        l = mem()
        if peek() in _REL:
            op = nxt()
            return ("cmp", op, l, rel())
        return l

    def mem() -> tuple:
        l = unary()
        if peek() in _MEM:
            op = nxt()
            return ("cmp", op, l, mem())
        return l

    def unary() -> tuple:
        t = nxt()
        if t == "not":
            return ("not", or_())
        if t == "(":
            e = or_()
            if nxt() != ")":
                raise Unsupported("unbalanced")
            return ("paren", e)
        if isinstance(t, tuple):
            return t
        raise Unsupported(f"token {t!r}")

    e = or_()
    if pos[0] != len(tokens):
        raise Unsupported("trailing tokens")
    return e


def print_flat(tokens: list[Any], lay: Layout | None = None) -> str:
    lay = lay or Layout()
    return " ".join(t if isinstance(t, str) else pexpr(t, lay) for t in tokens).replace("( ", "(").replace(" )", ")")


# ------------------------------------------------------------------ self-test (documentation examples, transcribed by hand)


def self_test() -> None:
    from .lang import FL
    from .lang import I
    from .lang import S
    from .lang import V
    from .lang import flt

    def r(body: tuple, data: dict[str, Any] | None = None, **kw: Any) -> str:
        k, v, _s, _p = render(body, data or {}, **kw)
        assert k == "ok", (k, v)
        return v

    # docs/tag_reference.md: case
    case = (
        ("assign", "day", S("Monday")),
        ("case", V("day"), (((S("Monday"),), (("text", "Start of the work week!"),)), ((S("Friday"),), (("text", "Almost the weekend!"),)), ((S("Saturday"), S("Sunday")), (("text", "Enjoy!"),))), (("text", "Just another weekday."),)),
    )
    assert r(case) == "Start of the work week!"
    # docs/tag_reference.md: for with limit / offset / forloop
    loop = (("for", "x", ("range", I(1), I(4)), (), (("out", V("x")), ("text", ",")), None),)
    assert r(loop) == "1,2,3,4,"
    loop2 = (("for", "p", V("ps"), (("limit", I(2)),), (("out", V("forloop", "index")), ("text", ":"), ("out", V("p")), ("text", " ")), (("text", "none"),)),)
    assert r(loop2, {"ps": ["a", "b", "c"]}) == "1:a 2:b "
    assert r(loop2, {"ps": []}) == "none"
    # increment / decrement are separate from assigned variables
    inc = (("assign", "n", I(5)), ("increment", "n"), ("increment", "n"), ("out", V("n")))
    assert r(inc) == "015"
    # cycle
    cyc = (("for", "i", ("range", I(1), I(4)), (), (("cycle", None, (S("odd"), S("even"))), ("text", " ")), None),)
    assert r(cyc) == "odd even odd even "
    # capture + filters
    cap = (("capture", "g", (("text", "Hello, "), ("out", FL(V("you"), flt("upcase"))))), ("out", FL(V("g"), flt("append", S("!")))))
    assert r(cap, {"you": "sue"}) == "Hello, SUE!"
    # docs/whitespace_control.md
    ws = (("text", "<ul>\n"), ("for", "x", ("range", I(1), I(2)), (), (("text", "\n  <li>"), ("out", V("x")), ("text", "</li>\n")), None), ("text", "\n</ul>"))
    assert r(ws) == "<ul>\n\n  <li>1</li>\n\n  <li>2</li>\n\n</ul>"
    lay = Layout(markers=("", "~", "", "", "", "-"))
    assert r(ws, layout=lay) == "<ul>\n  <li>1</li>\n  <li>2</li>\n</ul>", repr(r(ws, layout=lay))
    # operator precedence (docs/tag_reference.md: `and` binds more tightly than `or`)
    t, f = ("true",), ("false",)
    assert ev(parse_flat([t, "or", f, "and", f]), Ctx({}, {}, {"trim": "+", "suppress": True}, {})) is True
    assert ev(parse_flat(["(", t, "or", f, ")", "and", f]), Ctx({}, {}, {"trim": "+", "suppress": True}, {})) is False
    # truthiness: only false and nil are falsy (docs/tag_reference.md if)
    for v, want in ((0, "t"), ("", "t"), ([], "t"), (None, "f"), (False, "f")):
        assert r((("if", ((V("v"), (("text", "t"),)),), (("text", "f"),)),), {"v": v}) == want
    # render is isolated, include shares scope (docs/tag_reference.md)
    parts = {"p": (("out", V("a")), ("assign", "a", I(2)))}
    assert r((("assign", "a", I(1)), ("render", "p", None, None, False, ()), ("out", V("a"))), partials=parts) == "1"
    assert r((("assign", "a", I(1)), ("include", S("p"), None, None, False, ()), ("out", V("a"))), partials=parts) == "12"
